"""C19: every script URL a render emits is served with that component's code (render-sim + in-process HTTP).

One run = a history of 2-10 operations in one simulated deployment: Render(document|fragment) of a generated
asset-carrying page, Get(url) of emitted or fuzzed paths, other HTTP methods; with faults BETWEEN operations:
media-cache clear / evict / TTL expiry (virtual clock) and RESTART (the history continues in a second worker
process forked from the pristine image; only the content of a durable SimCache survives).
Oracle over the recorded history: the URLs emitted by render k are fetched right after render k and must be
served (200, exact code, right content type); every request answers 200/404/405 and never serves another
class's code.
"""
import base64
import json
import os
import re
from urllib.parse import quote, unquote

from sim import simcache, world
from sim.model import emit, prog as progmod, ref
from sim.engines import render as R
from sim.engines import c04

ENDPOINT = "/components/cache/"


def default_params(tier):
    p = progmod.default_params(tier, elems=True, assets=True, page_wrap=True,
                               forbid=["only", "provide", "inject_default", "negative", "aliases", "faults", "dynamic"])
    p["size_hi"] = 16
    p["max_comps"] = 4
    p["max_ops"] = 8 if tier == "quick" else 12
    return p


def plan_history(ch, params, prog):
    n = 2 + ch.small(params["max_ops"] - 2, "n_ops", 2, 3)
    ops = []
    restarted = False
    for k in range(n):
        if k > 0:
            f = ch.weighted([8, 2, 2, 2, 0 if restarted else 2], "fault")
            if f:
                kind = [None, "clear", "evict", "expire", "restart"][f]
                ops.append({"op": "fault", "kind": kind, "mask": ch.draw(8, "mask") if kind == "evict" else 0})
                restarted = restarted or kind == "restart"
        kind = ch.weighted([5, 3, 1], "opkind") if k > 0 else 0  # render / get / other method
        if kind == 0:
            op = {"op": "render", "type": ["document", "fragment"][ch.weighted([2, 1], "rtype")]}
            if k > 0 and ch.chance(1, 5, "render_fails"):
                # a render that is abandoned at a user callback (EXC@i): whatever it leaves behind must not keep a LATER
                # render from caching / announcing its scripts correctly (seeded change C19e-2)
                op["fault_at"] = 1 + ch.draw(6, "fault_at")
                op["exc"] = ch.draw(len(world.exc_kinds()), "exc")
            ops.append(op)
        elif kind == 1:
            ops.append({"op": "get", "pick": ch.draw(6, "urlkind"), "a": ch.draw(16, "url_a"), "b": ch.draw(8, "url_b")})
        else:
            ops.append({"op": "method", "method": ["POST", "PUT", "DELETE", "HEAD", "OPTIONS", "PATCH"][ch.draw(6, "method")],
                        "a": ch.draw(16, "url_a")})
    return ops


def emitted_urls(html, rtype):
    """Endpoint URLs the render announced: [(url, kind)]"""
    out = []
    for body in c04.parse_final(html)["json"]:
        data = json.loads(body)
        if rtype == "document":
            lists = [("js", data["loadedJsUrls"]), ("css", data["loadedCssUrls"])]
            for kind, lst in lists:
                for b in lst:
                    out.append((base64.b64decode(b).decode(), kind))
        else:
            for kind, lst, rx in (("js", data["toLoadJsTags"], c04.SRC_RE), ("css", data["toLoadCssTags"], c04.HREF_RE)):
                for b in lst:
                    m = rx.search(base64.b64decode(b).decode())
                    if m:
                        out.append((m.group(1), kind))
    return [(u, k) for u, k in out if unquote(u).startswith(ENDPOINT)]


class Worker:
    def __init__(self, prog, knobs, stats, violations, log):
        self.prog = prog
        self.stats = stats
        self.violations = violations
        self.log = log
        self.w = R.start_world(knobs, prog["mode"])
        self.classes = emit.build_classes(prog)
        self.comps = {c["name"]: c for c in prog["comps"]}
        self.code = {}  # (hash, kind) -> expected served text
        for name, cls in self.classes.items():
            for kind in ("js", "css"):
                v = c04.effective(self.comps[name], self.comps, kind)
                if v is not None and v.strip():
                    self.code[(cls._class_hash, kind)] = v.strip()
        from django.test import Client

        self.client = Client()
        self.known_urls = []
        exp = ref.run_model(prog)["result"]
        self.expected_error = exp[1] if exp[0] == "err" else None
        self.too_big = exp[0] == "toobig"

    def violate(self, cls, fp, detail):
        self.violations.append({"class": cls, "fingerprint": fp, "detail": detail})

    def request(self, method, path):
        try:
            resp = self.client.generic(method, path)
            return resp.status_code, resp.get("Content-Type", ""), resp.content
        except Exception as e:
            return 599, type(e).__name__, str(e)[:200].encode()

    def judge_any(self, method, path, status, ctype, body, opi):
        """What every request must satisfy, whatever faults preceded it."""
        self.log.append(["req", method, path, status])
        if status >= 500:
            self.violate("SERVER-ERROR", [method, "5xx"], {"op": opi, "path": path, "status": status, "what": ctype + " " + body[:200].decode(errors="replace")})
            return
        if method != "GET":
            if unquote(path).startswith(ENDPOINT) and status != 405 and status != 404:
                self.violate("METHOD", [method, status], {"op": opi, "path": path, "status": status})
            return
        if status not in (200, 404):
            self.violate("STATUS", ["GET", status], {"op": opi, "path": path, "status": status})
            return
        if status == 200:
            m = re.match(r"^/components/cache/([^/]+?)\.(?:([^./]+)\.)?(js|css)$", unquote(path))
            text = body.decode()
            want = self.code.get((m.group(1), m.group(3))) if m else None
            if m and m.group(2) is not None:
                want = "" if want is not None else None  # variables file: empty on this version
            if want is None or text != want:
                self.violate("WRONG-CONTENT", ["GET"], {"op": opi, "path": path, "served": text[:200], "expected": want})
            elif ctype.split(";")[0] != {"js": "text/javascript", "css": "text/css"}[m.group(3)]:
                self.violate("CONTENT-TYPE", [m.group(3)], {"op": opi, "path": path, "content_type": ctype})

    def fuzz_path(self, op):
        hashes = sorted(c._class_hash for c in self.classes.values())
        h = hashes[op["a"] % len(hashes)]
        k = op["pick"]
        if k == 0 and self.known_urls:
            return self.known_urls[op["a"] % len(self.known_urls)]
        if k == 1:
            return ENDPOINT + quote(h) + "." + ["js", "css"][op["b"] % 2]
        if k == 2:
            return ENDPOINT + quote(h) + "." + ["xml", "JS", "js.map", "", "py", "css.js", "jss", "c"][op["b"] % 8]
        if k == 3:
            return ENDPOINT + quote(h[:-1] + "0") + "." + ["js", "css"][op["b"] % 2]
        if k == 4:
            return ENDPOINT + quote(h) + "." + ["abc123", "", "a.b", "..", "%2e", "ffffff", "0", "é"][op["b"] % 8] + ".js"
        return ENDPOINT + ["", ".js", "..js", "a/b.js", "%00.js", "x" * 300 + ".css", "Кнопка_000000.js", ".."][op["b"] % 8]

    def run_ops(self, ops, start):
        from django.template import Context, Template

        from django_components import render_dependencies

        for opi in range(start, len(ops)):
            op = ops[opi]
            if self.violations:
                return None
            if op["op"] == "fault":
                if op["kind"] == "restart":
                    return opi
                lost = world.media_cache_fault(op["kind"], pick=(lambda i, key, m=op["mask"]: (m >> (i % 3)) & 1))
                self.stats["fault:CACHE_" + op["kind"].upper()] = self.stats.get("fault:CACHE_" + op["kind"].upper(), 0) + 1
                if op["kind"] == "expire":
                    self.stats["sim_time_s"] = self.stats.get("sim_time_s", 0) + 301
                elif lost:
                    self.stats["probe:cache_entries_actually_lost"] = self.stats.get("probe:cache_entries_actually_lost", 0) + 1
                self.log.append(["fault", op["kind"]])
            elif op["op"] == "render":
                if self.too_big:
                    continue
                self.w.begin_op(fault_at=op.get("fault_at"), exc_kind=op.get("exc", 0))
                try:
                    html = Template(emit.page_source(self.prog)).render(Context(dict(self.prog["ctx"])))
                    final = render_dependencies(str(html), type=op["type"])
                except Exception as e:
                    fired = self.w.main.fired
                    if fired is not None and fired[2] is e:
                        self.stats["fault:EXC@callback"] = self.stats.get("fault:EXC@callback", 0) + 1
                        self.log.append(["render", op["type"], "abandoned at an injected callback exception"])
                        continue
                    if self.expected_error == type(e).__name__:
                        self.log.append(["render", op["type"], "raises " + self.expected_error + " (as the model predicts)"])
                        continue
                    self.violate("EXCEPTION", ["render", type(e).__name__], {"op": opi, "what": str(e)[:300]})
                    return None
                urls = emitted_urls(final, op["type"])
                self.stats["renders"] = self.stats.get("renders", 0) + 1
                self.stats["urls_emitted"] = self.stats.get("urls_emitted", 0) + len(urls)
                self.log.append(["render", op["type"], [u for u, _ in urls]])
                for url, kind in urls:
                    if url not in self.known_urls:
                        self.known_urls.append(url)
                    status, ctype, body = self.request("GET", url)
                    self.judge_any("GET", url, status, ctype, body, opi)
                    if self.violations:
                        return None
                    if status != 200:
                        self.violate("NOT-SERVED", [kind, status],
                                     {"op": opi, "url": url, "status": status, "what": "URL emitted by this render is not served right after it"})
                        return None
                    self.stats["probe:emitted_url_served"] = self.stats.get("probe:emitted_url_served", 0) + 1
            elif op["op"] == "get":
                path = self.fuzz_path(op)
                status, ctype, body = self.request("GET", path)
                self.judge_any("GET", path, status, ctype, body, opi)
                self.stats["requests:GET status %d" % status] = self.stats.get("requests:GET status %d" % status, 0) + 1
            elif op["op"] == "method":
                path = self.fuzz_path({"pick": 0 if self.known_urls else 1, "a": op["a"], "b": 0})
                status, ctype, body = self.request(op["method"], path)
                self.judge_any(op["method"], path, status, ctype, body, opi)
                self.stats["requests:non-GET status %d" % status] = self.stats.get("requests:non-GET status %d" % status, 0) + 1
        return None


def run(ch, params, decoded=False):
    knobs = R.draw_knobs(ch, cache_variants=world.CACHE_VARIANTS)
    prog = progmod.generate(ch, params)
    ops = plan_history(ch, params, prog)
    has_restart = any(o["op"] == "fault" and o["kind"] == "restart" for o in ops)
    stats = {"cache=" + knobs["cache_variant"]: 1, "ops": len(ops)}
    violations = []
    log = []
    pipe = None
    pid2 = None
    if has_restart:
        # second worker: forked NOW, from the pristine image, so that nothing but the durable cache reaches it
        r1, w1 = os.pipe()  # worker1 -> worker2
        r2, w2 = os.pipe()  # worker2 -> worker1
        pid2 = os.fork()
        if pid2 == 0:
            os.close(w1)
            os.close(r2)
            data = b""
            while True:
                b = os.read(r1, 1 << 16)
                if not b:
                    break
                data += b
            out = {"violations": [], "stats": {}, "log": []}
            try:
                msg = json.loads(data)
                wk = Worker(prog, dict(knobs, id_seed=knobs["id_seed"] + 1), out["stats"], out["violations"], out["log"])
                for name, dump in msg["stores"].items():
                    simcache.load(name, dump)
                simcache.CLOCK[0] = msg["clock"]
                wk.known_urls = msg["known_urls"]
                wk.run_ops(ops, msg["resume_at"])
            except BaseException as e:  # harness failure in worker 2
                out["harness_error"] = repr(e)
            os.write(w2, json.dumps(out, default=repr).encode())
            os._exit(0)
        os.close(r1)
        os.close(w2)
        pipe = (w1, r2)
    wk = Worker(prog, knobs, stats, violations, log)
    stopped = wk.run_ops(ops, 0)
    if has_restart:
        w1, r2 = pipe
        if stopped is not None and not violations:
            stats["fault:RESTART"] = 1
            stores = {}
            import django_components.cache as djc_cache

            cache = djc_cache.get_component_media_cache()
            if isinstance(cache, simcache.SimCache):
                stores[cache._name] = simcache.dump(cache._name)
                stats["probe:restart_with_durable_cache_content"] = 1 if stores[cache._name] else 0
            msg = {"stores": stores, "clock": simcache.now(), "known_urls": wk.known_urls, "resume_at": stopped + 1}
            os.write(w1, json.dumps(msg).encode())
        else:
            os.write(w1, json.dumps({"stores": {}, "clock": 0, "known_urls": [], "resume_at": len(ops)}).encode())
        os.close(w1)
        data = b""
        while True:
            b = os.read(r2, 1 << 16)
            if not b:
                break
            data += b
        os.close(r2)
        os.waitpid(pid2, 0)
        out2 = json.loads(data) if data else {"harness_error": "worker 2 died"}
        if "harness_error" in out2:
            raise RuntimeError("worker 2: " + out2["harness_error"])
        violations.extend(out2["violations"])
        for k, v in out2["stats"].items():
            stats[k] = stats.get(k, 0) + v
        log.extend([["--- worker 2 ---"]] + out2["log"])
    wk.w.log(log)
    out = {"violations": violations,
           "key": R.skeleton_key(prog, extra=[[o.get("op"), o.get("kind"), o.get("type"), o.get("pick")] for o in ops]),
           "nontrivial": stats.get("probe:emitted_url_served", 0) > 0 and any(o["op"] == "fault" for o in ops),
           "stats": stats, "digest": wk.w.digest()}
    if decoded or violations:
        out["decoded"] = {"knobs": knobs, "program": R.decoded_program(prog),
                          "assets": {c["name"]: {k_: c.get(k_) for k_ in ("cls", "js", "css", "base")} for c in prog["comps"]},
                          "ops": ops, "log": log}
    return out
