"""Generic shrinker over a draw list (see sim/choices.py).

`test(draws)` must return (still_fails: bool, actual_draws_used: list).  The
shrinker only ever keeps candidates for which `still_fails` is True, so the
result is a real failing input; wall-clock is used only as a budget, never as
an input to a run.
"""
import time
from typing import Callable, List, Sequence, Tuple

from .choices import trim


def shrink(
    draws: Sequence[int],
    test: Callable[[List[int]], Tuple[bool, List[int]]],
    max_execs: int = 1500,
    max_seconds: float = 60.0,
):
    t0 = time.monotonic()
    best = trim(draws)
    execs = 0
    seen = set()

    def attempt(cand: List[int]) -> bool:
        nonlocal best, execs
        cand = trim(cand)
        key = tuple(cand)
        if key in seen or cand == best:
            return False
        if execs >= max_execs or time.monotonic() - t0 > max_seconds:
            return False
        seen.add(key)
        execs += 1
        ok, actual = test(cand)
        if ok:
            actual = trim(actual)
            # the run may have used fewer / clamped draws: keep the canonical form
            if len(actual) <= len(cand):
                cand = actual
            if (len(cand), cand) < (len(best), best):
                best = cand
                return True
        return False

    def exhausted() -> bool:
        return execs >= max_execs or time.monotonic() - t0 > max_seconds

    improved = True
    rounds = 0
    while improved and not exhausted():
        improved = False
        rounds += 1
        # 1. delete blocks
        for size in (32, 16, 8, 4, 2, 1):
            i = 0
            while i < len(best) and not exhausted():
                if i + size <= len(best) or size == 1:
                    cand = best[:i] + best[i + size:]
                    if attempt(cand):
                        improved = True
                        continue  # same i, list got shorter
                i += 1
        # 2. zero blocks / values
        for size in (8, 2, 1):
            i = 0
            while i < len(best) and not exhausted():
                if any(best[i:i + size]):
                    cand = best[:i] + [0] * min(size, len(best) - i) + best[i + size:]
                    if attempt(cand):
                        improved = True
                i += size
        # 3. lower single values
        i = 0
        while i < len(best) and not exhausted():
            v = best[i]
            if v > 0:
                for nv in sorted({v // 2, v - 1, 1} - {v}):
                    if nv < v and nv >= 0:
                        cand = best[:i] + [nv] + best[i + 1:]
                        if attempt(cand):
                            improved = True
                            break
            i += 1
    return best, {"executions": execs, "rounds": rounds, "seconds": round(time.monotonic() - t0, 2)}
