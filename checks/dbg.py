"""Debug helper: run one replay file (or seed) in-process and print the outcome. Not a registered check."""
import importlib
import json
import sys

sys.path.insert(0, "/verif")
from sim import boot  # noqa: E402

boot.boot()
from sim.choices import Choices  # noqa: E402

path = sys.argv[1]
rp = json.load(open(path))
params = rp["params"]
for kv in sys.argv[2:]:
    k, v = kv.split("=")
    params[k] = json.loads(v)
eng = importlib.import_module("sim.engines." + rp["engine"])
ch = Choices(prefix=rp["draws"], keep_labels=True)
res = eng.run(ch, params, decoded=True)
print(json.dumps(res, indent=1, default=repr)[:6000])
