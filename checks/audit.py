"""Mutation audit: apply a patch to a scratch copy of /repo/src and run a check against it.

  python -m checks.audit <patch> <PROP> [--runs N] [--tier quick]
Prints the check's output; exit code = the check's exit code (1 = mutant detected).
"""
import argparse
import os
import shutil
import subprocess
import sys
import tempfile

ap = argparse.ArgumentParser()
ap.add_argument("patch")
ap.add_argument("prop")
ap.add_argument("--runs")
ap.add_argument("--tier", default="quick")
ap.add_argument("--keep-replays", action="store_true")
a = ap.parse_args()
verif = os.path.dirname(os.path.dirname(os.path.abspath(__file__)))
d = tempfile.mkdtemp(prefix="djc-mut-")
try:
    shutil.copytree("/repo/src", os.path.join(d, "src"))
    r = subprocess.run(["patch", "-p1", "-s", "-d", d, "-i", os.path.abspath(a.patch)])
    if r.returncode != 0:
        sys.exit(3)
    env = dict(os.environ, DJC_SRC=os.path.join(d, "src"))
    if a.runs:
        env["VERIF_RUNS"] = a.runs
    env["VERIF_EVIDENCE_DIR"] = os.path.join(d, "evidence")
    if not a.keep_replays:
        env.setdefault("VERIF_REPLAY_DIR", os.path.join(d, "replays"))  # replays against a mutant are not kept in /verif
    r = subprocess.run(["/venv/bin/python", "-m", "checks.run", a.prop, "--tier", a.tier], cwd=verif, env=env)
    sys.exit(r.returncode)
finally:
    shutil.rmtree(d, ignore_errors=True)
