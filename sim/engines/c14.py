"""C14: root elements of a component instance, and only they, carry its render id (render-sim, element mode).

Two strata: (a) generated programs in element mode - every element of a component template echoes the id that
Component.id reported to its lexical owner (data-o), which ties model instances to real ids; (b) the depth knob: a
recursive chain component (component-as-root / wrapped levels drawn per level) of depth up to 100 (quick) /
2000 (thorough), expected tree computed iteratively.  Both after a drawn history prefix (other and failing renders).
"""
import re

from sim import world
from sim.model import emit, prog as progmod, ref
from sim.engines import render as R

TAG_RE = re.compile(r"<([a-zA-Z][\w-]*)((?:\s+[^\s<>=/]+(?:=\"[^\"]*\")?)*)\s*/?>")
ATTR_RE = re.compile(r"([^\s<>=/]+)(?:=\"([^\"]*)\")?")
ID_ATTR = "data-djc-id-"


def default_params(tier):
    p = progmod.default_params(tier, elems=True, forbid=["only", "provide", "inject_default", "negative", "aliases"])
    p["budget_mult"] = 5000
    p["max_prefix"] = 2
    p["chain_max"] = 700 if tier == "quick" else 2000
    p["chain_every"] = 16 if tier == "quick" else 8
    p["includes"] = 5   # 1/5 of the elements / component tags sit in a partial pulled in with {% include %}
    return p


def scan_elements(html):
    """Document-order list of (data-e, data-o, sorted render ids) of the elements carrying data-e."""
    out = []
    stray = []
    for m in TAG_RE.finditer(html):
        attrs = {}
        for am in ATTR_RE.finditer(m.group(2)):
            attrs[am.group(1)] = am.group(2)
        ids = sorted(a[len(ID_ATTR):] for a in attrs if a.startswith(ID_ATTR))
        if "data-e" in attrs:
            out.append((attrs["data-e"], attrs.get("data-o"), ids))
        elif ids or m.group(1) == "template":
            stray.append(m.group(0))
    return out, stray


def check_structure(expected_elems, n_insts, real_elems, stray):
    """expected_elems: [(eid, owner idx|None, [root inst idxs])]; real: [(eid, data-o, [ids])].
    Returns None or (class, description)."""
    if stray:
        return ("MARKER", f"library marker / placeholder element survived: {stray[:2]}")
    if [e[0] for e in expected_elems] != [e[0] for e in real_elems]:
        return ("OUTPUT", "element sequence differs from the model")
    inst_to_id = {}
    for (eid, owner, roots), (_, dato, ids) in zip(expected_elems, real_elems):
        if owner is None:
            continue
        if not dato:
            return ("ID-ECHO", f"element {eid}: Component.id echoed nothing")
        if inst_to_id.setdefault(owner, dato) != dato:
            return ("ID-ECHO", f"instance #{owner} reported two ids: {inst_to_id[owner]} and {dato}")
    if len(set(inst_to_id.values())) != len(inst_to_id):
        return ("ID-NOT-DISTINCT", "two instances reported the same Component.id")
    exp_sig = {}
    real_sig = {}
    for k, ((eid, owner, roots), (_, dato, ids)) in enumerate(zip(expected_elems, real_elems)):
        if len(ids) != len(set(ids)):
            return ("ROOT-IDS", f"element {eid} carries a duplicated id attribute")
        known = {inst_to_id[i] for i in roots if i in inst_to_id}
        if not known <= set(ids):
            missing = sorted(known - set(ids))
            return ("ROOT-IDS", f"element {eid} (#{k}) is a root of instance(s) with id {missing} but does not carry it; "
                                f"carries {ids}")
        if len(ids) != len(roots):
            return ("ROOT-IDS", f"element {eid} (#{k}) carries {len(ids)} id(s) {ids}, model says it is a root of "
                                f"{len(roots)} instance(s)")
        for i in roots:
            if i not in inst_to_id:
                exp_sig.setdefault(i, []).append(k)
        for rid in ids:
            if rid not in known:
                if rid in inst_to_id.values():
                    return ("ROOT-IDS", f"element {eid} (#{k}) carries id {rid} of an instance it is not a root of")
                real_sig.setdefault(rid, []).append(k)
    if sorted(map(tuple, exp_sig.values())) != sorted(map(tuple, real_sig.values())):
        return ("ROOT-IDS", "ids of instances without own elements are not placed on exactly their root elements")
    return None


# ------------------------------------------------------------------------------------------------ chain stratum
_NEXT = ('{% if ones %}{% for one in ones %}{% component "chain" pat=rest ones=ones / %}{% endfor %}'
         '{% else %}{% component "chain" pat=rest ones=ones / %}{% endif %}')
CHAIN_TMPL = (
    '{% if wrap %}<div data-e="w" data-o="{{ cid }}">x{% if more %}' + _NEXT + '{% endif %}y</div>'
    '{% else %}{% if more %}' + _NEXT + '{% else %}<span data-e="leaf" data-o="{{ cid }}">z</span>{% endif %}{% endif %}'
)


def build_chain_class():
    from django_components import Component, registry

    def get_context_data(self, pat, ones=(1,)):
        world.fault_point("gcd:chain")
        return {"wrap": pat[0] == "w", "rest": pat[1:], "more": len(pat) > 1, "cid": self.id, "ones": ones}

    cls = type("GenChain", (Component,), {"template": CHAIN_TMPL, "get_context_data": get_context_data,
                                         "__module__": "sim.generated"})
    registry.register("chain", cls)
    return cls


def chain_expected(pat):
    """[(eid, owner level, [levels it is a root of])] for the chain with the given pattern (iterative)."""
    elems = []
    pending = []
    for i, c in enumerate(pat):
        last = i == len(pat) - 1
        if c == "w":
            elems.append(("w", i, sorted(pending + [i])))
            pending = []
        else:
            pending = pending + [i]
            if last:
                elems.append(("leaf", i, sorted(pending)))
    return elems


def run_chain(ch, params, knobs, mode, w, stats, violations, decoded):
    from django.template import Context, Template

    depth = 1 + ch.draw(params["chain_max"], "chain_depth")
    style = ch.draw(4, "chain_style")
    if style == 0:
        pat = "t" * depth
    elif style == 1:
        pat = "w" * depth
    else:
        pat = "".join("wt"[ch.draw(2, "lvl")] for _ in range(min(depth, 24)))
        pat = (pat * (depth // len(pat) + 1))[:depth]
    through_loops = ch.chance(1, 2, "chain_through_loops")
    build_chain_class()
    w.begin_op()
    try:
        with R.StepBudget(40_000 * depth + 300_000):
            # through {% for %} (the chain of parentloops grows with the depth; snapshotting it is quadratic) up to depth 700
            ones = [1] if (depth <= 700 and through_loops) else []
            html = Template('<section data-e="page">{% component "chain" pat=pat ones=ones / %}</section>').render(
                Context({"pat": pat, "ones": ones}))
        real = ("ok", str(html))
    except world.StepBudgetExceeded as e:
        real = ("hang", str(e))
    except RecursionError:
        real = ("err", "RecursionError", "maximum recursion depth exceeded", None)
    except Exception as e:
        real = ("err", type(e).__name__, str(e)[:300], None)
    stats["chain_depth_total"] = depth
    stats["probe:chain_depth>=60"] = 1 if depth >= 60 else 0
    stats["probe:chain_depth>=1000"] = 1 if depth >= 1000 else 0
    if real[0] != "ok":
        violations.append({"class": "DEPTH" if real[1] == "RecursionError" else real[0].upper(),
                           "fingerprint": ["chain", real[1]],
                           "detail": {"depth": depth, "what": f"{real[1]}: {real[2] if len(real) > 2 else ''}"}})
    else:
        expected = [("page", None, [])] + chain_expected(pat)
        elems, stray = scan_elements(real[1])
        bad = check_structure(expected, depth, elems, stray)
        if bad:
            violations.append({"class": bad[0], "fingerprint": ["chain", bad[0]],
                               "detail": {"depth": depth, "pattern": pat[:80], "what": bad[1]}})
    w.log("chain", depth, pat[:50], real[0])
    return {"stratum": "chain", "depth": depth, "pattern": pat[:200], "through_loops": bool(ones)}


def run(ch, params, decoded=False):
    knobs = R.draw_knobs(ch, registries=True)
    chain = ch.chance(1, params["chain_every"], "stratum_chain")
    if chain:
        knobs["registry"] = "default"
    violations = []
    stats = {}
    if chain:
        mode = ["django", "isolated"][ch.draw(2, "mode")]
        w = R.start_world(knobs, mode, unique_ids=True)
        stats["stratum:chain"] = 1
        dec = run_chain(ch, params, knobs, mode, w, stats, violations, decoded)
        res = world.registries_nonempty()
        if res and not violations:
            violations.append({"class": "RESIDUE", "fingerprint": ["chain", sorted(res)], "detail": {"residue": {k: len(v) for k, v in res.items()}}})
        out = {"violations": violations, "key": "chain:%s:%s" % (mode, dec["pattern"][:64] + str(dec["depth"])),
               "nontrivial": dec["depth"] >= 2, "stats": stats, "digest": w.digest()}
        if decoded or violations:
            out["decoded"] = dict(dec, knobs=knobs, mode=mode)
        return out

    prog = progmod.generate(ch, params)
    mode = prog["mode"]
    prefix = R.gen_prefix_ops(ch, params, mode, params.get("max_prefix", 0))
    w = R.start_world(knobs, mode)
    stats["mode=" + mode] = 1
    stats["registry=" + knobs["registry"]] = 1
    stats["stratum:programs"] = 1
    R.run_prefix_ops(prefix, w, stats)
    exp = ref.run_model(prog)
    _skip = R.skipped_if_too_big(exp)
    if _skip is not None:
        return _skip
    model = exp["model"]
    classes = emit.build_classes(prog)
    budget = params["budget_mult"] * max(1, model.node_renders) + 300_000
    before = world.registries()
    w.begin_op()
    real = R.real_render_page(prog, classes, w, budget=budget)
    bad = R.compare(real, exp["result"])
    nontrivial = False
    if bad:
        violations.append({"class": bad[0], "fingerprint": ["render", bad[0], bad[1]], "detail": {"what": bad[2]}})
    elif exp["result"][0] == "ok":
        expected, order = ref.stream_structure(exp["stream"])
        elems, stray = scan_elements(real[1])
        bad2 = check_structure(expected, len(model.insts), elems, stray)
        if bad2:
            violations.append({"class": bad2[0], "fingerprint": ["structure", bad2[0]], "detail": {"what": bad2[1]}})
        multi = sum(1 for e in expected if len(e[2]) >= 2)
        stats["probe:element_is_root_of_2+_instances"] = 1 if multi else 0
        stats["probe:instance_without_root_element"] = 1 if len({i for e in expected for i in e[2]}) < len(model.insts) else 0
        stats["elements"] = len(expected)
        stats["instances"] = len(model.insts)
        nontrivial = len(model.insts) >= 2 and any(e[2] for e in expected)
        after = world.registries()
        if after != before and not violations:
            violations.append({"class": "RESIDUE", "fingerprint": ["render", sorted(k for k in after if after[k] != before[k])],
                               "detail": {"what": "successful render changed the per-render registries"}})
    w.log("render", real[0], R.normalise(real[1]) if real[0] == "ok" else real[1])
    out = {"violations": violations, "key": R.skeleton_key(prog), "nontrivial": nontrivial, "stats": stats, "digest": w.digest()}
    if decoded or violations:
        out["decoded"] = {"knobs": knobs, "history_prefix": R.decoded_ops(prefix), "program": R.decoded_program(prog),
                          "expected": list(exp["result"][:3]),
                          "observed": [real[0], real[1][:3000]] if real[0] == "ok" else list(real[:3])}
    return out
