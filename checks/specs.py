"""Per-property check specifications: which engines run, with which parameters and budgets."""

REAL_STATE = {
    "real": ["django_components (all of it, from the working tree)", "Django 5.1 template engine"],
    "stub": ["none needed: pure in-memory object, no I/O, clock or thread on this path"],
}


def _c18_parts(tier):
    q = tier == "quick"
    return [
        {"engine": "lru", "params": {"max_ops": 12 if q else 40}, "runs": 120_000 if q else 3_000_000,
         "per_fork": 400, "wall_s": 60 if q else 900},
        {"engine": "tcache", "params": {"max_ops": 10 if q else 24, "max_sources": 5}, "runs": 8_000 if q else 300_000,
         "per_fork": 1, "wall_s": 60 if q else 900},
    ]


def _c15_parts(tier):
    q = tier == "quick"
    return [
        {"engine": "registry", "params": {"max_ops": 10 if q else 25}, "runs": 60_000 if q else 2_000_000,
         "per_fork": 200, "wall_s": 60 if q else 900},
    ]


RENDER_REAL = {
    "real": ["django_components (all of it, from the working tree)", "Django 5.1 template engine",
             "djc_core_html_parser (native)", "LocMemCache (default media cache)"],
    "stub": ["id source (seeded unique ids over the real alphabet)", "user code (generated components, filters, tags)"],
}


def _c01_parts(tier):
    from sim.engines import c01
    q = tier == "quick"
    return [{"engine": "c01", "params": c01.default_params(tier), "runs": 18_000 if q else 600_000,
             "per_fork": 1, "wall_s": 90 if q else 1200, "run_timeout_s": 240}]


def _c05_parts(tier):
    from sim.engines import c05
    q = tier == "quick"
    return [{"engine": "c05", "params": c05.default_params(tier), "runs": 12_000 if q else 400_000,
             "per_fork": 1, "wall_s": 90 if q else 1200, "run_timeout_s": 240}]


def _c06_parts(tier):
    from sim.engines import c06
    q = tier == "quick"
    return [{"engine": "c06", "params": c06.default_params(tier), "runs": 2_200 if q else 60_000,
             "per_fork": 1, "wall_s": 120 if q else 1500, "run_timeout_s": 240}]


def _c14_parts(tier):
    from sim.engines import c14
    q = tier == "quick"
    return [{"engine": "c14", "params": c14.default_params(tier), "runs": 12_000 if q else 400_000,
             "per_fork": 1, "wall_s": 90 if q else 1500, "run_timeout_s": 240}]


def _c04_parts(tier):
    from sim.engines import c04
    q = tier == "quick"
    return [{"engine": "c04", "params": c04.default_params(tier), "runs": 14_000 if q else 400_000,
             "per_fork": 1, "wall_s": 90 if q else 1500, "run_timeout_s": 240}]


RENDER_REAL_CACHE = {
    "real": RENDER_REAL["real"] + ["LocMemCache with TTL (variant, clock patched)", "middleware / render_dependencies"],
    "stub": RENDER_REAL["stub"] + ["SimCache backend (variants sim, sim-ttl)", "virtual clock (cache TTL only)"],
}

def _c19_parts(tier):
    from sim.engines import c19
    q = tier == "quick"
    return [{"engine": "c19", "params": c19.default_params(tier), "runs": 10_000 if q else 300_000,
             "per_fork": 1, "wall_s": 90 if q else 1500, "run_timeout_s": 240}]


def _c07_parts(tier):
    from sim.engines import c07
    q = tier == "quick"
    # second part: SYSTEMATIC bounded pre-emption sweep. Run index i -> task set i // K, schedule number i % K of that set's
    # bounded space (depth 1 completely, then depth 2 per focus group, smallest spaces first; see c07.sweep_pick)
    sw = c07.default_params(tier)
    sw.update({"sweep": {"per_set": 96 if q else 2048}, "max_tasks": 2, "size_hi": 8,
               "strata": ["extends", "provide", "lru", "media", "clean", "mixed", "view", "clean"]})
    return [{"engine": "c07", "params": c07.default_params(tier), "runs": 5_000 if q else 200_000,
             "per_fork": 1, "wall_s": 120 if q else 1800, "run_timeout_s": 240},
            {"engine": "c07", "params": sw, "runs": 40 * 96 if q else 80 * 2048,
             "per_fork": 1, "wall_s": 90 if q else 1500, "run_timeout_s": 240}]


def _c07_derive(stats, runs):
    """Reach of the schedule search: candidate-set sizes and the PCT detection bound 1/(k * n^(d-1)) per run."""
    runs = max(1, runs)
    n_all = stats.get("sim_steps", 0) / runs
    n_shared = stats.get("shared_state_steps", 0) / runs
    k = 2.33
    out = {
        "avg_line_steps_per_run (candidate switch points, untargeted)": round(n_all),
        "avg_shared_state_steps_per_run (candidate switch points, targeted, all groups)": round(n_shared),
        "avg_preemptions_per_run": round(stats.get("fault:PREEMPT", 0) / runs, 2),
        "lock_contentions_resolved_by_scheduler": stats.get("lock_contention", 0),
    }
    for d in (2, 3):
        for name, n in (("untargeted", n_all), ("targeted", n_shared)):
            if n > 0:
                p = 1.0 / (k * (n ** (d - 1)))
                out[f"pct_bound_per_run_depth{d}_{name}"] = float(f"{p:.3g}")
                out[f"expected_runs_to_hit_depth{d}_{name}"] = round(1 / p)
    return out


def _c16_parts(tier):
    from sim.engines import media
    q = tier == "quick"
    return [{"engine": "media", "params": media.default_params(tier), "runs": 30_000 if q else 800_000,
             "per_fork": 1, "wall_s": 90 if q else 1500, "run_timeout_s": 240}]


def _c03_parts(tier):
    from sim.engines import c03
    q = tier == "quick"
    return [{"engine": "c03", "params": c03.default_params(tier), "runs": 16_000 if q else 500_000,
             "per_fork": 1, "wall_s": 90 if q else 1500, "run_timeout_s": 240}]


SPECS = {
    "C03": {
        "level": "exploration",
        "parts": _c03_parts,
        "rule": "case = collision-mode program (names va/vb/vc bound at page, data, with, for level and read everywhere; `only` "
                "flag; noise variables read only inside component templates) x history prefix x knobs; distinct = program "
                "skeleton; non-trivial = model renders without error and a fill is rendered or a noise variable is read",
        "real_vs_stub": RENDER_REAL,
        "assumptions": ["layered-scope model = transcription of the statement (DESIGN.md 4/C03); shapes listed there as ambiguous are not generated"],
    },
    "C16": {
        "level": "exploration",
        "parts": _c16_parts,
        "rule": "case = (class hierarchy, two access schedules); distinct = blake2b of it; non-trivial = >= 2 classes, at least one "
                "class declares files, and the two schedules differ",
        "real_vs_stub": {"real": ["django_components.component_media (real)", "django.forms.Media merge (real)",
                                  "real temp directory for *_file assets"], "stub": ["none"]},
        "no_faults_reason": "none: file-read errors are not in the statement; the schedule dimension is the order of first accesses",
        "assumptions": ["a class without its own Media declares no files and extends all its bases (the statement's reading)",
                        "order is checked only when the declared lists are mutually consistent"],
    },
    "C07": {
        "level": "exploration",
        "derive": _c07_derive,
        "parts": _c07_parts,
        "rule": "case = (2-3 tasks drawn from a stratum - clean / provide / lru / media / mixed / extends / view -, schedule); distinct = stratum x blake2b of the schedule projected on "
                "shared-state accesses (sequence of (thread, file:line) at which ownership of shared state changed hands); "
                "non-trivial = at least one pre-emption happened and both threads touched shared state",
        "real_vs_stub": {"real": RENDER_REAL["real"] + ["real threading.Thread objects executing the real library code"],
                         "stub": RENDER_REAL["stub"] + ["thread scheduler (baton: one runnable thread at a time, seeded switch points "
                                                        "at line events in library files)"]},
        "assumptions": ["interleavings are explored at line granularity in the library's own files only",
                        "solo results = the same tasks run one after the other in a sibling process forked from the same pristine image",
                        "no reference model is involved: the oracle is differential (scheduled = serial), which is what lets the "
                        "'extends' stratum use Django template inheritance, a feature outside the workload language of the model"],
    },
    "C19": {
        "level": "exploration",
        "parts": _c19_parts,
        "rule": "case = history of 2-12 ops (renders document/fragment, GETs of emitted and fuzzed paths, other methods) with "
                "cache faults / RESTART between ops; distinct = program skeleton x op/fault sequence; non-trivial = at least "
                "one emitted URL was fetched and at least one fault was injected",
        "real_vs_stub": {"real": RENDER_REAL_CACHE["real"] + ["URL resolver, django.test.Client request/response cycle, cached_script_view"],
                         "stub": RENDER_REAL_CACHE["stub"] + ["network (none: in-process client)", "second worker process = fork of the pristine zygote image"]},
        "sim_time_stat": "sim_time_s",
        "assumptions": ["faults are injected between operations only", "a restarted worker has imported the same component classes"],
    },
    "C04": {
        "level": "exploration",
        "parts": _c04_parts,
        "rule": "case = element-mode program with js/css/Media on its classes (incl. inherited Media, non-ASCII class names) x "
                "1-3 renders through drawn entry paths (render_dependencies str/bytes/SafeString, middleware, "
                "Component.render; document/fragment) x media-cache faults between renders; distinct = program skeleton x "
                "plan; non-trivial = at least one rendered class has js, css or Media files",
        "real_vs_stub": RENDER_REAL_CACHE,
        "sim_time_stat": "sim_time_s",
        "assumptions": ["tags are delivered only where C08 says they are inserted (placeholder, </head>, </body>); pages without "
                        "any insertion point expect nothing",
                        "cache loss is injected between renders only (loss during a render is outside the statement)"],
    },
    "C14": {
        "level": "exploration",
        "parts": _c14_parts,
        "rule": "case = element-mode program (after a drawn history prefix) or a recursive chain (depth, wrap pattern); "
                "distinct = program skeleton / chain pattern; non-trivial = >=2 instances and at least one root element "
                "(programs), depth >= 2 (chains)",
        "real_vs_stub": RENDER_REAL,
        "assumptions": ["instances are tied to real ids through Component.id echoed by the lexical owner into data-o; "
                        "instances that own no element are matched by their root-position signature"],
    },
    "C06": {
        "level": "fault_enumeration",
        "parts": _c06_parts,
        "rule": "case = (program, fault index set): the program is rendered fault-free once to number its user-code "
                "invocations 1..N, then once per selected index i with invocation i raising (quick: up to 6 drawn "
                "indices, thorough: every index up to 60), each followed by a fault-free render; distinct = distinct "
                "program skeleton; non-trivial = the pristine render succeeds and has at least one user callback",
        "real_vs_stub": RENDER_REAL,
        "assumptions": ["exceptions are Exception subclasses (BaseException such as KeyboardInterrupt is out of scope)",
                        "the path annotation is checked only when the callback order equals the reference model's"],
    },
    "C05": {
        "level": "exploration",
        "parts": _c05_parts,
        "rule": "case = history of 1-6 page renders (provider/consumer programs, some failing at a drawn callback, GC "
                "in between) in one world; distinct = distinct blake2b of (mode, program skeletons, fault positions); "
                "non-trivial = at least one consumer's inject() is resolved to a provider by the reference model",
        "real_vs_stub": RENDER_REAL,
        "assumptions": ["reference renderer = provider stack along the rendered structure (DESIGN.md Appendix A)"],
    },
    "C01": {
        "level": "exploration",
        "parts": _c01_parts,
        "rule": "case = generated program (component library + page + context mode + knobs); distinct = distinct "
                "blake2b of the program skeleton (node kinds, nesting, slot/fill names, flags) x mode; non-trivial = "
                "model renders without error AND at least one fill is rendered inside another instance's slot or a "
                "slot falls back to its own default content",
        "real_vs_stub": RENDER_REAL,
        "assumptions": ["reference renderer = lexical semantics of DESIGN.md Appendix A"],
    },
    "C15": {
        "level": "exploration",
        "parts": _c15_parts,
        "rule": "case = (1-2 registries x formatter x protected-tags, op history over 3 names x 3 classes); distinct = "
                "distinct blake2b of it; non-trivial = the model raises on at least one op or a tag shared by two "
                "registered names loses one of them",
        "real_vs_stub": REAL_STATE,
        "no_faults_reason": "none applicable: the statement has no I/O, clock, thread or crash; histories only",
        "assumptions": ["each registry owns a private django.template.Library (as in the property's quantifier)",
                        "classes have distinct names (the library identifies a class by name+module hash)"],
    },
    "C18": {
        "level": "exploration",
        "parts": _c18_parts,
        "rule": "part A: case = (maxsize, get/set/has/clear sequence); part B: case = history of cached_template calls / "
                "component renders / failing compiles / clears, executed under every cache size {0,1,2,3,128,unbounded}; "
                "distinct = distinct blake2b of the case; non-trivial = the reference model evicted at least once or "
                "(part A) a get() changed the recency order",
        "real_vs_stub": REAL_STATE,
        "no_faults_reason": "none applicable to part A (pure data structure); part B injects compile failures",
        "assumptions": ["reference LRU (OrderedDict) is the specification of 'bounded LRU'"],
    },
}


# ---------------------------------------------------------------------------------------------------------------
# MANIFEST material
# ---------------------------------------------------------------------------------------------------------------
_DST = "deterministic simulation: seeded search over {what} with {faults}; reference-model refinement; shrinking to a replay file"

MANIFEST_META = {
    "C01": {
        "engine": "render-sim", "design_ref": "DESIGN.md 4/C01, 3.4, Appendix A",
        "technique": _DST.format(what="generated component programs x history prefixes x id streams x cache knobs",
                                 faults="injected callback exceptions / cache clears / GC in the history prefix"),
        "level_text": "Seeded exploration: every completed render of a generated program (three entry variants) must equal a "
                      "lexical reference renderer, after a drawn history of other (also failing) renders. Sampling along the "
                      "program axis, no stronger than generative testing there; the simulation adds history, ids and knobs.",
        "level_note": "Trusted: the reference renderer (sim/model/ref.py) as the meaning of the statement; the generated "
                      "language (Appendix A) as the domain; step budget as hang verdict.",
    },
    "C03": {
        "engine": "render-sim", "design_ref": "DESIGN.md 4/C03",
        "technique": _DST.format(what="collision-mode programs x history prefixes x knobs",
                                 faults="injected callback exceptions / cache clears / GC in the history prefix") +
        "; caller-Context snapshot oracle; two-run non-interference",
        "level_text": "Seeded exploration with three oracles: caller-Context preservation, 2-run non-interference (isolated), layered-scope model.",
        "level_note": "Trusted: the layered-scope transcription of the statement in sim/model/ref.py.",
    },
    "C04": {
        "engine": "render-sim", "design_ref": "DESIGN.md 4/C04",
        "technique": _DST.format(what="asset-carrying programs x render histories x entry paths x media-cache backends",
                                 faults="media-cache clear / evict / TTL expiry (virtual clock) and GC between renders"),
        "level_text": "Seeded exploration: scripts, styles, Media tags and the loader manifest of the final HTML must equal the "
                      "multiset/order predicted from the model's instance pre-order; markers must not survive; any cache state.",
        "level_note": "Trusted: model instance pre-order = first appearance; regex scanner for script/style/link tags of generated pages.",
    },
    "C19": {
        "engine": "render-sim", "design_ref": "DESIGN.md 4/C19",
        "technique": _DST.format(what="histories of renders and HTTP requests against the in-process endpoint",
                                 faults="media-cache clear / evict / TTL expiry (virtual clock) and worker RESTART with durable cache between ops; request fuzzing"),
        "level_text": "Seeded exploration of histories; per-render oracle (emitted URL served right after the render) plus global "
                      "oracle (never 5xx, never another class's code, non-GET 405).",
        "level_note": "Trusted: django.test.Client as the HTTP layer; SimCache as a faithful Django cache backend.",
    },
    "C05": {
        "engine": "render-sim", "design_ref": "DESIGN.md 4/C05",
        "technique": _DST.format(what="histories of provider/consumer page renders in one process",
                                 faults="injected callback exceptions and GC between renders"),
        "level_text": "Seeded exploration of render histories; each successful render must equal the provider-stack model and "
                      "leave the provide registries as it found them, whatever earlier (failing) renders left behind.",
        "level_note": "Trusted: provider stack along the rendered structure as the meaning of 'nearest enclosing provider'.",
    },
    "C06": {
        "engine": "render-sim", "design_ref": "DESIGN.md 4/C06, 3.7, 3.8",
        "technique": "deterministic simulation with fault enumeration: exception injected at every numbered user-callback "
                     "invocation of a generated program (quick: up to 6 drawn indices), oracles on registries, weakref "
                     "liveness, object growth, follow-up render; shrinking to a replay file",
        "level_text": "Fault enumeration over callback positions per sampled program (complete per program in the thorough tier "
                      "up to 60 positions), sampled over programs and exception types.",
        "level_note": "Trusted: gc.collect() + weakrefs as reachability oracle; module-level containers + gc object count as "
                      "growth measure; BaseException faults out of scope.",
    },
    "C07": {
        "engine": "thread-sim", "design_ref": "DESIGN.md 4/C07, 3.6",
        "technique": "deterministic simulation of threads: baton-passing real threads, sys.settrace line events in library files as "
                     "pre-emption points, seeded pre-materialised schedules (memoryless / PCT / targeted at shared-state lines) plus a "
                     "systematic sweep of the bounded schedule space (1 and 2 pre-emptions at shared-state lines) of seeded task sets, "
                     "solo-vs-scheduled oracle, shrinking of the schedule to a replay file",
        "level_text": "Seeded exploration of interleavings of 2-3 render / compile / first-access / view-request tasks at line granularity "
                      "(random strategies, plus depth-1 complete and depth-2 per-focus-group enumeration for seeded two-task sets); each "
                      "thread must return its solo result and the shared caches / registries must end as the solo runs leave them.",
        "level_note": "Trusted: line granularity (no intra-line or Django-internal switches); locks created by the library become "
                      "scheduler-aware SimLocks through the module's `threading` attribute; solo run as the specification.",
    },
    "C14": {
        "engine": "render-sim", "design_ref": "DESIGN.md 4/C14",
        "technique": _DST.format(what="element-mode programs x history prefixes x id streams, plus a depth knob (chains to 2000)",
                                 faults="injected callback exceptions / cache clears / GC in the history prefix"),
        "level_text": "Seeded exploration: the set of elements carrying each instance's id must equal the model's root-element set; "
                      "ids distinct and equal to Component.id; depth knob without recursion limit.",
        "level_note": "Trusted: instance-tree model of the rendered structure; case-preserving regex tag scanner for the generated HTML subset.",
    },
    "C15": {
        "engine": "state-sim", "design_ref": "DESIGN.md 4/C15",
        "technique": "deterministic simulation (fault-free corner): seeded operation histories against a dict/tag-set reference "
                     "model, step by step, with shrinking and replay",
        "level_text": "Seeded exploration of operation histories (1-2 registries x formatter x protected tags); no fault, clock or "
                      "thread occurs in the statement, so only histories are sampled.",
        "level_note": "Trusted: dict + derived tag set as specification; private Library per registry.",
    },
    "C16": {
        "engine": "state-sim", "design_ref": "DESIGN.md 4/C16",
        "technique": "deterministic simulation (history corner): seeded class hierarchies read under two different seeded "
                     "first-access schedules on fresh class copies; set/order reference model of merged Media; shrinking + replay",
        "level_text": "Seeded exploration of hierarchies x access schedules; differential between two schedules plus a set/order model.",
        "level_note": "Trusted: the transcription of the statement in sim/engines/media.py (expected_media, MRO pair rule).",
    },
    "C18": {
        "engine": "state-sim", "design_ref": "DESIGN.md 4/C18",
        "technique": "deterministic simulation: seeded get/set/has/clear histories x cache-size knob against a reference LRU; "
                     "cross-size transparency of cached_template / component renders with injected compile failures",
        "level_text": "Seeded exploration of histories and the cache-size knob; structural invariant + reference model after every op.",
        "level_note": "Trusted: OrderedDict reference LRU; thread races on the cache are judged under C07.",
    },
}

NOT_APPLICABLE = {
    "C02": "pure function of (tag text, context): the parser/resolver reads no shared state, id, cache, clock or file; there is "
           "no schedule, history or fault for a simulator to sample (input-space property; generative testing territory)",
    "C08": "render_dependencies is a pure bytes->bytes function given the set of component classes; the middleware's async "
           "wrapper awaits once and calls the same synchronous function; no history, schedule or fault dimension",
    "C09": "the lexer is a pure function of the template source (tag_re is swapped once at start-up, not per render)",
    "C10": "equality with unpatched Django / the hand-flattened template family is a function of the template family and context "
           "only; the patch is installed once and touches no cross-render state that varies; needs generative differential "
           "testing, a different technique",
    "C11": "argument binding is a pure function of (signature, argument list)",
    "C12": "totality and a time bound of pure parsing functions: input fuzzing / performance, about which deterministic "
           "simulation decides nothing",
    "C13": "escaping, merge order and end-tag refusal are pure functions of the given dicts and strings",
    "C17": "what the finder exposes is a pure function of (directory tree, settings, lookup path); read-only single-shot scan, "
           "nothing carried between calls, insensitive to listing order",
    "C20": "get_component_files is a pure function of (directory tree, settings); read-only single-shot scan",
}
