"""C16: component assets = own class plus the bases selected by Media.extend (state-sim, histories only).

One run: a hierarchy of up to 6 fresh classes is drawn (single / multiple / diamond inheritance; no Media, empty
Media, str / list / dict forms; extend True / False / list; js / css / template inline or as *_file in a temp
directory, or both -> must be rejected) and instantiated TWICE; the two copies are read under two different
drawn access schedules.  Oracles: (a) set/order model of Component.media, (b) the two copies agree on every
attribute (first-access order does not matter), (c) MRO pair rule for template/js/css.
"""
import hashlib
import json
import os
import shutil
import tempfile

JS_FILES = ["a.js", "b.js", "c.js", "shared.js"]
CSS_FILES = ["x.css", "y.css", "z.css", "shared.css"]
ATTRS = ["media", "js", "css", "template", "js_file", "css_file", "template_file"]


def default_params(tier):
    return {"max_classes": 5 if tier == "quick" else 6, "max_reads": 10 if tier == "quick" else 20}


# ------------------------------------------------------------------------------------------------ hierarchy
def _permutation(ch, seq, label):
    pool = list(seq)
    return [pool.pop(ch.draw(len(pool), label)) for _ in range(len(seq))]


def draw_order_family(ch, params):
    """Dense family for ORDER defects (F13, seeded change C16d-3): every declared list is a short sub-list of one drawn
    total order (so all lists are mutually consistent whatever the hierarchy), most classes have two bases, no inline /
    file pairs. What the merge decides arbitrarily at one level is then often contradicted by a list merged in later."""
    pj = _permutation(ch, JS_FILES, "perm_js")
    pc = _permutation(ch, CSS_FILES, "perm_css")
    n = 3 + ch.draw(max(1, min(3, params["max_classes"] - 2)), "n_classes")
    classes = []
    for i in range(n):
        c = {"bases": [], "media": None, "pairs": {"template": 0, "js": 0, "css": 0}}
        if i > 0:
            k = ch.weighted([1, 3, 5], "n_bases")
            pool = list(range(i))
            for _ in range(min(k, i)):
                c["bases"].append(pool.pop(ch.draw(len(pool), "base")))
            c["bases"].sort(reverse=True)
        m = {"js": None, "css": None, "extend": True}
        js = ch.subset(pj, "js", 2, 5) or [pj[ch.draw(len(pj), "js1")]]
        m["js"] = js
        css = ch.subset(pc, "css", 2, 5)
        if css:
            m["css"] = css if ch.chance(1, 2, "css_form") else {"all": css}
        if i > 0 and ch.chance(1, 6, "extend_list"):
            m["extend"] = sorted(set(ch.draw(i, "ext_cls") for _ in range(1 + ch.draw(2, "n_ext"))), reverse=True)
        elif i > 0 and ch.chance(1, 6, "extend_false"):
            # a class that cuts its ancestors off: a class further down that lists both it and one of those ancestors among
            # its bases must still get the ancestor's files (seeded change C16f-3)
            m["extend"] = False
        c["media"] = m
        c["media_class"] = ch.chance(1, 3, "media_class")
        classes.append(c)
    return classes


def draw_hierarchy(ch, params):
    if ch.chance(1, 5, "order_family"):
        return draw_order_family(ch, params)
    n = 1 + ch.draw(params["max_classes"], "n_classes")
    classes = []
    for i in range(n):
        c = {"bases": [], "media": None, "pairs": {}}
        if i > 0:
            k = ch.weighted([2, 5, 2], "n_bases")  # 0 bases (Component), 1, 2
            pool = list(range(i))
            for _ in range(min(k, i)):
                c["bases"].append(pool.pop(ch.draw(len(pool), "base")))
            c["bases"].sort(reverse=True)  # later classes first keeps the MRO linearisable
        # a PLAIN class (no Component among its ancestors): an assets mixin such as `class VendorAssets: class Media: ...`,
        # possibly inheriting its nested Media from another plain class; Component classes list them among their bases
        if all(classes[b].get("plain") for b in c["bases"]) and ch.chance(1, 5, "plain"):
            c["plain"] = True
        mk = ch.weighted([3, 1, 6], "media_kind")  # none / empty / with files
        if mk:
            m = {"js": None, "css": None, "extend": True}
            if mk == 2:
                js = ch.subset(JS_FILES, "js", 1, 3)
                jf = ch.draw(2, "js_form")
                m["js"] = (js[0] if (jf == 0 and len(js) == 1) else js) if js else None
                css = ch.subset(CSS_FILES, "css", 1, 3)
                cf = ch.draw(4, "css_form")
                if css:
                    if cf == 0 and len(css) == 1:
                        m["css"] = css[0]
                    elif cf == 1:
                        m["css"] = css
                    elif cf == 2:
                        m["css"] = {"all": css[0]} if len(css) == 1 else {"all": css[:1], "print": css[1:]}
                    else:
                        m["css"] = {"print": css}
            ek = ch.weighted([5, 2, 2], "extend")
            if ek == 1:
                m["extend"] = False
            elif ek == 2 and i > 0:
                m["extend"] = sorted(set(ch.draw(i, "ext_cls") for _ in range(1 + ch.draw(2, "n_ext"))), reverse=True)
            if c.get("plain"):
                # a plain class's Media is handed to django.forms.Media as it is: Django's own forms only (list, dict of lists)
                m["js"] = js_list(m["js"]) or None
                m["css"] = css_dict(m["css"]) or None
            c["media"] = m
        for attr in ("template", "js", "css"):
            # none / inline / file / both (rejected) / both with an EMPTY inline member (rejected too: "" is a definition)
            # / empty inline member alone (a definition: overrides the parents)
            pk = 0 if c.get("plain") else ch.weighted([5, 4, 2, 1, 1, 1], "pair_" + attr)
            c["pairs"][attr] = pk
        # a custom `media_class` (public attribute; a plain subclass of django.forms.Media): one more dimension of the
        # hierarchy space - the merged files and their order do not depend on it (seeded change C16d-3)
        c["media_class"] = (not c.get("plain")) and ch.chance(1, 3, "media_class")
        classes.append(c)
    return classes


def draw_schedule(ch, n, params, label):
    reads = []
    for _ in range(2 + ch.draw(params["max_reads"], label + "_n")):
        reads.append([ch.draw(n, label + "_cls"), ATTRS[ch.weighted([6, 2, 2, 2, 1, 1, 1], label + "_attr")],
                      ch.draw(2, label + "_inst")])
    return reads


# ------------------------------------------------------------------------------------------------ model
def css_dict(css):
    if css is None:
        return {}
    if isinstance(css, str):
        return {"all": [css]}
    if isinstance(css, list):
        return {"all": list(css)}
    return {k: ([v] if isinstance(v, str) else list(v)) for k, v in css.items()}


def js_list(js):
    if js is None:
        return []
    return [js] if isinstance(js, str) else list(js)


def expected_media(classes, i, memo=None, rel=None):
    """({js set}, {medium: css set}, [declared lists as (kind, medium, list)]) of class i."""
    memo = {} if memo is None else memo
    if i in memo:
        return memo[i]
    c = classes[i]
    # The Media definition of a class is looked up like any class attribute: a class that does not define its own
    # inherits the definition (files AND extend flag) of the nearest class in its MRO that has one - the same
    # rule as django.forms.MediaDefiningClass. (The statement's "the class's own Media" is read this way; the other
    # reading - no own Media = no files, extend all bases - is what the code does not implement, see DESIGN.md.)
    m = None
    for k in mro_of(classes, i):
        if classes[k]["media"] is not None:
            m = classes[k]["media"]
            if rel and not classes[k].get("plain"):
                # files that exist next to the component module are addressed relative to the components directory
                # (only in the Media of COMPONENT classes: a plain mixin's Media goes to django.forms.Media as it is)
                m_ = (lambda f_: "sub/" + f_ if f_ in rel else f_)
                m = {"js": [m_(f_) for f_ in js_list(m["js"])] or None,
                     "css": {k_: [m_(f_) for f_ in v_] for k_, v_ in css_dict(m["css"]).items()} or None,
                     "extend": m["extend"]}
            break
    js = set()
    css = {}
    lists = []
    extend = True
    if m is not None:
        own_js = js_list(m["js"])
        js |= set(own_js)
        if own_js:
            lists.append(("js", None, own_js))
        for medium, files in css_dict(m["css"]).items():
            css.setdefault(medium, set()).update(files)
            lists.append(("css", medium, files))
        extend = m["extend"]
    if extend is True:
        sel = c["bases"]
    elif extend is False:
        sel = []
    else:
        sel = extend
    for b in sel:
        bj, bc, bl = expected_media(classes, b, memo, rel)
        js |= bj
        for medium, files in bc.items():
            css.setdefault(medium, set()).update(files)
        lists.extend(bl)
    memo[i] = (js, css, lists)
    return memo[i]


def consistent(lists):
    """True when the pairwise order constraints of the declared lists form no cycle."""
    edges = {}
    for lst in lists:
        for a, b in zip(lst, lst[1:]):
            if a != b:
                edges.setdefault(a, set()).add(b)
    state = {}

    def visit(x):
        if state.get(x) == 1:
            return False
        if state.get(x) == 2:
            return True
        state[x] = 1
        for y in edges.get(x, ()):
            if not visit(y):
                return False
        state[x] = 2
        return True

    return all(visit(x) for x in list(edges))


def respects(result, lst):
    pos = {f: k for k, f in enumerate(result)}
    idx = [pos[f] for f in lst if f in pos]
    return idx == sorted(idx)


def mro_of(classes, i):
    """C3 linearisation over the drawn bases (same algorithm as Python's)."""
    def merge(seqs):
        res = []
        seqs = [list(s) for s in seqs if s]
        while seqs:
            for s in seqs:
                cand = s[0]
                if not any(cand in t[1:] for t in seqs):
                    break
            else:
                raise TypeError("inconsistent MRO")
            res.append(cand)
            seqs = [[x for x in t if x != cand] for t in seqs]
            seqs = [t for t in seqs if t]
        return res

    bases = classes[i]["bases"]
    return [i] + merge([mro_of(classes, b) for b in bases] + [list(bases)])


def expected_pair(classes, i, attr, content):
    """(inline value, file value) per the MRO pair rule."""
    for k in mro_of(classes, i):
        pk = classes[k]["pairs"].get(attr, 0)
        if pk == 1:
            return content(k, attr, "inline"), None
        if pk == 5:
            return "", None
        if pk == 2:
            return content(k, attr, "file_content"), content(k, attr, "file_name")
    return None, None


# ------------------------------------------------------------------------------------------------ real side
EXT = {"template": "html", "js": "js", "css": "css"}


def content(k, attr, what):
    if what == "inline":
        return f"inline-{attr}-{k}"
    if what == "file_name":
        return f"f{k}.{EXT[attr]}"
    return f"file-{attr}-{k}"


_SIM_MEDIA = []


def _sim_media_class():
    if not _SIM_MEDIA:
        from django.forms.widgets import Media

        _SIM_MEDIA.append(type("SimMedia", (Media,), {"__module__": "sim.generated"}))
    return _SIM_MEDIA[0]


def build(classes, copy, tmpdir, rel=None):
    """Returns (list of real classes or None where creation was rejected, error or None)."""
    import sys
    import types

    from django.core.exceptions import ImproperlyConfigured

    from django_components import Component

    module = "sim.generated"
    if rel is not None:
        module = "c16relmod"
        if module not in sys.modules:
            mod = types.ModuleType(module)
            mod.__file__ = os.path.join(tmpdir, "sub", "comp.py")
            sys.modules[module] = mod
            os.makedirs(os.path.join(tmpdir, "sub"), exist_ok=True)
            for name in rel:
                with open(os.path.join(tmpdir, "sub", name), "w") as f:
                    f.write("/* " + name + " */")
    real = []
    for i, c in enumerate(classes):
        bases = tuple(real[b] for b in c["bases"])
        if any(b is None for b in bases):
            real.append(None)
            continue
        if c.get("plain"):
            bases = bases or (object,)
        elif not any(isinstance(b, type) and issubclass(b, Component) for b in bases):
            bases = bases + (Component,)   # e.g. class Chart(ChartAssets, Component)
        attrs = {"__module__": module}
        if c.get("media_class"):
            attrs["media_class"] = _sim_media_class()
        m = c["media"]
        if m is not None:
            ma = {}
            if m["js"] is not None:
                ma["js"] = json.loads(json.dumps(m["js"]))
            if m["css"] is not None:
                ma["css"] = json.loads(json.dumps(m["css"]))
            if m["extend"] is False:
                ma["extend"] = False
            elif m["extend"] is not True:
                ext = [real[b] for b in m["extend"]]
                if any(e is None for e in ext):
                    real.append(None)
                    continue
                ma["extend"] = ext
            attrs["Media"] = type("Media", (), ma)
        for attr, pk in c["pairs"].items():
            if pk in (1, 3):
                attrs[attr] = content(i, attr, "inline")
            if pk in (4, 5):
                attrs[attr] = ""
            if pk in (2, 3, 4):
                attrs[attr + "_file"] = content(i, attr, "file_name")
                with open(os.path.join(tmpdir, content(i, attr, "file_name")), "w") as f:
                    f.write(content(i, attr, "file_content"))
        want_reject = any(pk in (3, 4) for pk in c["pairs"].values())
        try:
            cls = type(f"H{copy}_{i}", bases, attrs)
        except ImproperlyConfigured:
            if not want_reject:
                return real, ("REJECTED", f"class {i} was rejected although no inline/file pair is doubly defined")
            real.append(None)
            continue
        except TypeError as e:
            if "MRO" in str(e) or "consistent method resolution" in str(e):
                real.append(None)  # hierarchy not linearisable: Python itself refuses, nothing to check
                continue
            raise
        if want_reject:
            return real, ("NOT-REJECTED", f"class {i} defines both members of a pair and was accepted")
        real.append(cls)
    return real, None


def read(cls, attr, inst):
    target = cls() if inst else cls
    v = getattr(target, attr)
    if attr == "media":
        return {"js": list(v._js), "css": {k: list(f) for k, f in v._css.items()}}
    return v


def run(ch, params, decoded=False):
    from django.conf import settings

    classes = draw_hierarchy(ch, params)
    n = len(classes)
    sched_a = draw_schedule(ch, n, params, "a")
    sched_b = draw_schedule(ch, n, params, "b")
    # relative variant: the classes live in a module whose file is in <components dir>/sub/, and some of the declared
    # Media files exist next to it -> the library rewrites those paths to "sub/<file>" (lazily, at first access)
    rel = None
    if ch.chance(1, 3, "relative_variant"):
        rel = sorted(set(ch.subset(JS_FILES + CSS_FILES, "rel_file", 1, 2)))
    file_pairs = [(i, a_) for i, c in enumerate(classes) for a_, pk in c["pairs"].items() if pk == 2]
    fault = file_pairs[ch.draw(len(file_pairs), "fault_target")] if file_pairs and ch.chance(1, 3, "file_fault") else None
    tmpdir = tempfile.mkdtemp(prefix="djc-c16-")
    violations = []
    stats = {"classes": n}
    try:
        comps = dict(settings.COMPONENTS)
        comps["dirs"] = [tmpdir]
        settings.COMPONENTS = comps
        copies = []
        for copy in (0, 1):
            real, err = build(classes, copy, tmpdir, rel)
            if err:
                violations.append({"class": err[0], "fingerprint": [err[0]], "detail": {"what": err[1]}})
                break
            copies.append(real)
        observed = [{}, {}]
        # Fault (copy 0 only): one *_file asset is missing when its class is first touched - the access may fail - and
        # is back afterwards. From then on copy 0 must behave like the never-faulted copy 1: an operation may fail,
        # but no later access may return wrong data (narrow relaxation: only the faulted accesses are exempt).
        if not violations and fault is not None:
            ci, attr = fault
            path = os.path.join(tmpdir, content(ci, attr, "file_name"))
            if copies[0][ci] is not None and os.path.exists(path):
                os.rename(path, path + ".away")
                failed = 0
                for sub in range(n):
                    cls = copies[0][sub]
                    if cls is None or classes[sub].get("plain") or ci not in mro_of(classes, sub):
                        continue
                    try:
                        read(cls, attr, 0)
                    except Exception:
                        failed += 1
                os.rename(path + ".away", path)
                stats["fault:FILE_MISSING_AT_FIRST_ACCESS"] = 1
                stats["probe:access_failed_under_fault"] = 1 if failed else 0
        if not violations:
            for copy, schedule in ((0, sched_a), (1, sched_b)):
                for ci, attr, inst in schedule:
                    cls = copies[copy][ci]
                    if cls is None or classes[ci].get("plain"):   # plain mixins have no `media` / `js` ... of their own
                        continue
                    try:
                        observed[copy].setdefault((ci, attr), read(cls, attr, inst))
                    except Exception as e:
                        violations.append({"class": "EXCEPTION", "fingerprint": [attr, type(e).__name__],
                                           "detail": {"class": ci, "attr": attr, "what": str(e)[:300]}})
                        break
                if violations:
                    break
        # complete both copies (every class, every attribute) after the scheduled prefix
        if not violations:
            for copy in (0, 1):
                for ci in range(n):
                    cls = copies[copy][ci]
                    if cls is None or classes[ci].get("plain"):
                        continue
                    for attr in ATTRS:
                        if (ci, attr) not in observed[copy]:
                            observed[copy][(ci, attr)] = read(cls, attr, 0)
        memo = {}
        multi = 0
        if not violations:
            for ci in range(n):
                if copies[0][ci] is None or classes[ci].get("plain"):
                    continue
                # (b) history independence
                for attr in ATTRS:
                    a, b = observed[0][(ci, attr)], observed[1][(ci, attr)]
                    if a != b:
                        violations.append({"class": "ORDER-DEPENDENT", "fingerprint": [attr],
                                           "detail": {"class": ci, "attr": attr, "schedule_a": a, "schedule_b": b}})
                        break
                if violations:
                    break
                # (a) media model
                got = observed[0][(ci, "media")]
                ejs, ecss, lists = expected_media(classes, ci, memo, rel)
                if len(classes[ci]["bases"]) > 1 or (classes[ci]["media"] and isinstance(classes[ci]["media"]["extend"], list)):
                    multi += 1
                if len(got["js"]) != len(set(got["js"])) or any(len(f) != len(set(f)) for f in got["css"].values()):
                    violations.append({"class": "MEDIA-DUPLICATE", "fingerprint": ["duplicate"], "detail": {"class": ci, "media": got}})
                    break
                if set(got["js"]) != ejs or {k: set(v) for k, v in got["css"].items() if v} != {k: v for k, v in ecss.items() if v}:
                    violations.append({"class": "MEDIA-SET", "fingerprint": ["set"],
                                       "detail": {"class": ci, "media": got, "expected_js": sorted(ejs),
                                                  "expected_css": {k: sorted(v) for k, v in ecss.items()}}})
                    break
                js_lists = [l for kind, medium, l in lists if kind == "js"]
                if consistent(js_lists) and not all(respects(got["js"], l) for l in js_lists):
                    violations.append({"class": "MEDIA-ORDER", "fingerprint": ["js-order"],
                                       "detail": {"class": ci, "js": got["js"], "declared": js_lists}})
                    break
                for medium in got["css"]:
                    ml = [l for kind, md, l in lists if kind == "css" and md == medium]
                    if consistent(ml) and not all(respects(got["css"][medium], l) for l in ml):
                        violations.append({"class": "MEDIA-ORDER", "fingerprint": ["css-order"],
                                           "detail": {"class": ci, "medium": medium, "css": got["css"][medium], "declared": ml}})
                        break
                if violations:
                    break
                # (c) MRO pair rule
                for attr in ("template", "js", "css"):
                    inline, fname = expected_pair(classes, ci, attr, content)
                    g_inline, g_file = observed[0][(ci, attr)], observed[0][(ci, attr + "_file")]
                    if g_inline != inline or (g_file or None) != fname:
                        violations.append({"class": "PAIR-RULE", "fingerprint": [attr],
                                           "detail": {"class": ci, "attr": attr, "got": [g_inline, g_file], "expected": [inline, fname],
                                                      "mro": mro_of(classes, ci)}})
                        break
                if violations:
                    break
        stats["probe:multiple_inheritance_or_extend_list"] = multi
        stats["probe:relative_media_paths"] = 1 if rel else 0
        stats["probe:plain_mixin_among_the_bases"] = 1 if any(c.get("plain") for c in classes) else 0
        stats["probe:rejected_double_definition"] = sum(1 for c in classes if any(pk in (3, 4) for pk in c["pairs"].values()))
    finally:
        shutil.rmtree(tmpdir, ignore_errors=True)
    key = hashlib.blake2b(json.dumps([classes, sched_a, sched_b, fault, rel]).encode(), digest_size=8).hexdigest()
    out = {"violations": violations, "key": key,
           "nontrivial": n >= 2 and any(c["media"] and (c["media"]["js"] or c["media"]["css"]) for c in classes) and sched_a != sched_b,
           "stats": stats, "digest": key}
    if decoded or violations:
        out["decoded"] = {"classes": classes, "schedule_a": sched_a, "schedule_b": sched_b,
                          "fault_file_missing_at_first_access": fault, "files_next_to_component_module": rel}
    return out
