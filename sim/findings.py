"""Known findings: genuine defects of the library that were recorded rather than repaired.

/verif/known_findings.json is committed and never written at run time.  An *open* entry names a
matcher (a predicate below, over the decoded case and the violation) plus a pinned replay file.
A violation found by the random search is "known" only if its class/fingerprint equals the
entry's and the matcher accepts the case; anything else is reported as VIOLATION.
Entries with status "fixed" suppress nothing.
"""
import json
import os

VERIF_DIR = os.path.dirname(os.path.dirname(os.path.abspath(__file__)))
PATH = os.path.join(VERIF_DIR, "known_findings.json")

MATCHERS = {}


def matcher(name):
    def deco(fn):
        MATCHERS[name] = fn
        return fn

    return deco


def load():
    if not os.path.exists(PATH):
        return []
    with open(PATH) as f:
        return json.load(f).get("findings", [])


def open_for(prop):
    return [f for f in load() if f.get("property") == prop and f.get("status") == "open"]


def classify(prop, violation, case, entries=None):
    """Return the id of the open known finding that covers this violation, or None."""
    entries = open_for(prop) if entries is None else entries
    for ent in entries:
        if ent.get("class") and ent["class"] != violation.get("class"):
            continue
        fp = ent.get("fingerprint")
        if fp is not None and list(fp) != list(violation.get("fingerprint") or []):
            continue
        fn = MATCHERS.get(ent.get("matcher", ""))
        if fn is None:
            continue
        try:
            if fn(case, violation):
                return ent["id"]
        except Exception:
            continue
    return None


# ---------------------------------------------------------------------------------------------
# matchers (added together with the finding they belong to; see DESIGN.md section 5)
# ---------------------------------------------------------------------------------------------


@matcher("c03-loopvar-visible-in-isolated-component")
def _f7(case, violation):
    """F7: the engine has already established (by re-running the reference model with exactly this quirk switched on)
    that the real output equals 'strict model + the innermost enclosing loop layer is forwarded into isolated
    components' and differs from the strict model; the class name carries that diagnosis."""
    return violation.get("class") == "SCOPE-LOOPVAR-VISIBLE-IN-ISOLATED-COMPONENT"


@matcher("c03-fill-captured-variables-misordered")
def _f15(case, violation):
    """F15: established by the engine the same way as F7 (reference model re-run with exactly this quirk on)."""
    return violation.get("class") == "SCOPE-FILL-CAPTURED-VARIABLES-MISORDERED"


@matcher("c03-f7-and-f15-composed")
def _f7f15(case, violation):
    """Composition of F7 and F15: the real output equals the reference model with BOTH quirks on (and neither alone)."""
    return violation.get("class") == "SCOPE-F7-AND-F15-COMPOSED"
