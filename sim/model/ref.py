"""Reference renderer: a small lexical interpreter of the workload language (DESIGN.md Appendix A).

It is a transcription of what the properties *state* (C01 lexical slot/fill resolution, C05 nearest
provider along the rendered structure, C14 root elements, C04 first-appearance order), not of how
the library computes it.  The only implementation detail mirrored on purpose is the *order* in
which user callbacks run (component data at tag time, templates deferred depth-first), so that a
program with several error sites fails with the same error first.
"""
import re

from .emit import DEFAULT_SENTINEL, comp_data


class TooBig(Exception):
    """The program's rendering explodes combinatorially (nested loops x nested components): not executed at all."""


NODE_CAP = 25_000


class ModelError(Exception):
    def __init__(self, kind, msg=""):
        super().__init__(kind + ": " + msg)
        self.kind = kind
        self.msg = msg


class Env:
    """Immutable chain of variable layers. Each layer: (tag, dict)."""

    __slots__ = ("layers",)

    def __init__(self, layers=()):
        self.layers = tuple(layers)

    def push(self, tag, d):
        return Env(self.layers + ((tag, d),))

    def lookup(self, name, default=""):
        for _, d in reversed(self.layers):
            if name in d:
                return d[name]
        return default

    def has(self, name):
        return any(name in d for _, d in self.layers)


class Inst:
    __slots__ = ("idx", "name", "comp", "fills", "data", "env", "prov", "default_slot", "parent", "kw",
                 "dyn_target", "owner_of_tag", "children", "path")

    def __init__(self, idx, name, comp):
        self.idx = idx
        self.name = name
        self.comp = comp
        self.fills = {}
        self.data = {}
        self.env = None
        self.prov = {}
        self.default_slot = None
        self.parent = None
        self.kw = {}
        self.dyn_target = None
        self.children = []
        self.path = None


class FillC:
    __slots__ = ("name", "body", "env", "owner", "data_alias", "default_alias", "between", "ck", "tag_depth", "only",
                 "implicit")

    def __init__(self, name, body, env, owner, data_alias=None, default_alias=None, between=(), ck=None,
                 tag_depth=0, only=False, implicit=False):
        self.name = name
        self.body = body
        self.env = env
        self.owner = owner
        self.data_alias = data_alias
        self.default_alias = default_alias
        self.between = between
        self.ck = ck
        self.tag_depth = tag_depth
        self.only = only
        self.implicit = implicit  # the whole component body taken as the default fill (no {% fill %} tag)


class DefaultRef:
    """Value of a `default=` alias: renders the slot's own body where the slot stands."""

    def __init__(self, thunk):
        self.thunk = thunk


_name_escape = re.compile(r"[^\w]")


def truthy(v):
    return bool(v)


class Model:
    def __init__(self, prog, step_cap=2_000_000, quirks=()):
        self.quirks = set(quirks)
        self.prog = prog
        self.mode = prog["mode"]
        self.comps = {c["name"]: c for c in prog["comps"]}
        self.insts = []
        self.events = []          # callback events in execution order
        self.steps = 0
        self.step_cap = step_cap
        self.node_renders = 0
        self.provider_seq = 0
        self.probes = {}
        self.cur = None           # instance whose template / slot content is being rendered (None: the page)

    def path_of(self, inst):
        names = []
        while inst is not None:
            names.append(inst.name)
            inst = inst.parent
        return tuple(reversed(names))

    def event(self, label, inst=None):
        self.events.append((label, self.path_of(inst if inst is not None else self.cur)))

    def probe(self, name):
        self.probes[name] = self.probes.get(name, 0) + 1

    # ------------------------------------------------------------------ values
    def ev(self, e, env):
        if e[0] == "lit":
            return e[1]
        if e[0] == "varf":
            self.event("filter:" + e[2])
            return env.lookup(e[1])
        if e[0] == "tpl":
            return self.to_str(env.lookup(e[1]))
        return env.lookup(e[1])

    def forloop(self, env, i, n):
        """The `forloop` value of the i-th of n iterations (with the chain of enclosing loops visible in env)."""
        parent = env.lookup("forloop", None)
        return {"counter0": i, "counter": i + 1, "first": i == 0, "last": i == n - 1,
                "parentloop": parent if isinstance(parent, dict) else {}}

    # ------------------------------------------------------------------ page
    def render_page(self):
        env = Env().push("page", dict(self.prog["ctx"]))
        out = []
        self.render_nodes(self.prog["page"], env, None, {}, out, ck=None)
        return out

    # ------------------------------------------------------------------ nodes
    def render_nodes(self, nodes, env, owner, prov, out, ck):
        for n in nodes:
            self.node_renders += 1
            if self.node_renders > NODE_CAP:
                raise TooBig()
            k = n[0]
            if k == "text":
                out.append(n[1])
            elif k == "raw":
                out.append(n[1])
            elif k == "ph":
                pass  # dependency placeholder: replaced by the generated tags, which the oracle strips
            elif k in ("var", "varf"):
                if k == "varf":
                    self.event("filter:" + n[2])
                v = env.lookup(n[1])
                if isinstance(v, DefaultRef):
                    v.thunk(out)  # a `default=` alias read as a plain variable renders the slot's default content
                else:
                    out.append(self.to_str(v))
            elif k == "if":
                if truthy(env.lookup(n[1], False)):
                    self.render_nodes(n[2], env, owner, prov, out, ck)
                else:
                    self.render_nodes(n[3], env, owner, prov, out, ck)
            elif k == "for":
                lst = env.lookup(n[2], [])
                if not isinstance(lst, list):
                    lst = list(lst) if lst else []
                for i, v in enumerate(lst):
                    e2 = env.push("loop", {n[1]: v, "forloop": self.forloop(env, i, len(lst))})
                    self.render_nodes(n[3], e2, owner, prov, out, ck)
            elif k == "with":
                e2 = env.push("with", {n[1]: self.ev(n[2], env)})
                self.render_nodes(n[3], e2, owner, prov, out, ck)
            elif k == "elem":
                out.append(("open", n[1], n[2], owner.idx if owner is not None else None))
                self.render_nodes(n[3], env, owner, prov, out, ck)
                out.append(("close", n[1]))
            elif k == "include":
                # {% include %} of a partial holding exactly these nodes: same context, same output as writing them inline
                self.node_renders -= 1
                self.render_nodes(n[3], env, owner, prov, out, ck)
            elif k == "comp":
                inst = self.instantiate(n, env, owner, prov, ck)
                if ck is None:
                    # no enclosing component in the context -> root render: expanded right here
                    self.full_render(inst, out)
                else:
                    out.append(inst)
            elif k == "slot":
                self.render_slot(n, env, owner, prov, out, ck)
            elif k == "provide":
                kw = []
                for kk, e in n[2]:
                    v = self.ev(e, env)
                    if kk == "...":
                        kw.extend((a, b) for a, b in (v.items() if isinstance(v, dict) else []))
                    else:
                        kw.append((kk, v))
                self.provider_seq += 1
                p2 = dict(prov)
                p2[n[1]] = (self.provider_seq, kw)
                self.render_nodes(n[3], env, owner, p2, out, ck)
            elif k == "fault":
                self.event("tag:" + n[1])
            elif k == "filled":
                if owner is None:
                    out.append("")
                else:
                    out.append("True" if _name_escape.sub("_", n[1]) in
                               {_name_escape.sub("_", f) for f in owner.fills} else "False")
            elif k == "forloop":
                v = env.lookup("forloop", None)
                for _ in range(n[1]):
                    v = v.get("parentloop") if isinstance(v, dict) else None
                out.append(self.to_str(v.get(n[2], "")) if isinstance(v, dict) else "")
            elif k == "alias_data":
                v = env.lookup(n[1], None)
                out.append(self.to_str(v.get(n[2], "")) if isinstance(v, dict) else "")
            elif k == "alias_default":
                v = env.lookup(n[1])
                if isinstance(v, DefaultRef):
                    v.thunk(out)
                else:
                    out.append(self.to_str(v))  # the alias name is shadowed by an inner binding: an ordinary variable read
            elif k == "fill":
                # a fill tag rendered outside fill discovery
                raise ModelError("TemplateSyntaxError", "fill outside component body")
            else:
                raise AssertionError(k)

    def to_str(self, v):
        if v is None:
            return "None"
        if v is True:
            return "True"
        if v is False:
            return "False"
        if isinstance(v, (list, dict)):
            return str(v).replace("'", "&#x27;")
        if isinstance(v, DefaultRef):
            tmp = []
            v.thunk(tmp)
            return "".join(x for x in tmp if isinstance(x, str))
        return str(v)

    # ------------------------------------------------------------------ component tag
    def instantiate(self, n, env, owner, prov, ck):
        _, cname, kwargs, only, bk, body, dyn = n
        kw = {k: self.ev(e, env) for k, e in kwargs}
        if not dyn and cname not in self.comps:
            raise ModelError("NotRegistered", cname)
        fills = self.discover(bk, body, env, owner, prov, ck, only)
        if dyn:
            inst = Inst(len(self.insts), "dynamic", None)
            inst.parent = self.cur
            self.insts.append(inst)
            self.event("gcd:dynamic-internal", inst)
            inst.dyn_target = cname
            inst.kw = kw
            inst.fills = fills
            inst.prov = prov
            if cname not in self.comps:
                raise ModelError("NotRegistered", cname)
            inst.env = env if (self.mode == "django" and not only) else self.isolated_base(env)
            return inst
        inst = Inst(len(self.insts), cname, self.comps[cname])
        inst.parent = self.cur
        self.insts.append(inst)
        inst.fills = fills
        inst.prov = prov
        inst.kw = kw
        self.gcd(inst, kw, prov)
        base = env if (self.mode == "django" and not only) else self.isolated_base(env)
        inst.env = base.push(("data", inst.idx), inst.data)
        return inst

    def isolated_base(self, env):
        """Environment an isolated component starts from: nothing - unless the quirk of known finding F7 is being
        modelled (the whole layer of the innermost enclosing {% for %}, loop variable included, is forwarded)."""
        if "forloop_layer" in self.quirks:
            for tag, d in reversed(env.layers):
                if tag == "loop":
                    return Env().push("loop", d)
        return Env()

    def gcd(self, inst, kw, prov):
        cd = inst.comp
        self.event("gcd:" + cd["name"], inst)

        def inj(key, has_default):
            if key in prov:
                self.probe("inject_found")
                return ",".join("%s=%s" % (k, v) for k, v in prov[key][1])
            if has_default:
                self.probe("inject_default")
                return DEFAULT_SENTINEL
            raise ModelError("KeyError", "inject " + key)

        inst.data = comp_data(cd["name"], kw, inj, cd["injects"], cd.get("echo_id"), ("ID", inst.idx),
                              cd.get("label"), cd.get("extra_data"))
        if cd.get("tmpl_via") == "get_template":
            self.event("gt:" + cd["name"], inst)  # the user's get_template() runs right after get_context_data()

    # ------------------------------------------------------------------ fills
    def discover(self, bk, body, env, owner, prov, ck, only=False):
        tag_depth = len(env.layers)
        if bk == "none" or not body:
            return {}
        captured = []
        text = []

        def walk(nodes, e):
            for n in nodes:
                k = n[0]
                if k in ("text", "raw", "ph"):
                    text.append(n[1])
                elif k == "var":
                    text.append(self.to_str(e.lookup(n[1])))
                elif k == "varf":
                    self.event("filter:" + n[2])
                    text.append(self.to_str(e.lookup(n[1])))
                elif k == "if":
                    walk(n[2] if truthy(e.lookup(n[1], False)) else n[3], e)
                elif k == "for":
                    lst = e.lookup(n[2], [])
                    for i, v in enumerate(lst if isinstance(lst, list) else []):
                        walk(n[3], e.push("loop", {n[1]: v, "forloop": self.forloop(e, i, len(lst))}))
                elif k == "with":
                    walk(n[3], e.push("with", {n[1]: self.ev(n[2], e)}))
                elif k == "elem":
                    text.append("<%s>" % n[1])
                    walk(n[3], e)
                elif k == "include":
                    walk(n[3], e)
                elif k == "fill":
                    name = self.ev(n[1], e)
                    if not isinstance(name, str):
                        raise ModelError("TemplateSyntaxError", "fill name not a string")
                    captured.append(FillC(name, n[4], e, owner, n[2], n[3], ck=ck, tag_depth=tag_depth, only=only))
                elif k in ("comp", "slot"):
                    pass  # render nothing during fill discovery
                elif k == "provide":
                    walk(n[3], e)
                elif k == "fault":
                    self.event("tag:" + n[1])
                elif k in ("filled", "forloop"):
                    text.append("x")
                elif k == "alias_data":
                    v = e.lookup(n[1], None)
                    text.append(self.to_str(v.get(n[2], "")) if isinstance(v, dict) else "")
                elif k == "alias_default":
                    v = e.lookup(n[1], None)
                    if isinstance(v, DefaultRef):
                        tmp = []
                        v.thunk(tmp)
                        text.append("".join(x if isinstance(x, str) else "x" for x in tmp))
                else:
                    raise AssertionError(k)

        walk(body, env)
        if not captured:
            blank = all(n[0] == "text" and not n[1].strip() for n in body)
            if blank:
                return {}
            return {"default": FillC("default", body, env, owner, ck=ck, tag_depth=tag_depth, only=only, implicit=True)}
        if "".join(text).strip():
            raise ModelError("TemplateSyntaxError", "text beside fills")
        fills = {}
        for f in captured:
            if f.name in fills:
                raise ModelError("TemplateSyntaxError", "duplicate fill " + f.name)
            fills[f.name] = f
        return fills

    # ------------------------------------------------------------------ slot
    def render_slot(self, n, env, owner, prov, out, ck):
        _, name, is_def, is_req, data, body = n
        if owner is None:
            raise ModelError("TemplateSyntaxError", "slot outside component")
        kwargs = {k: self.ev(e, env) for k, e in data}
        fills = owner.fills
        if is_def:
            if owner.default_slot is not None and owner.default_slot != name:
                raise ModelError("TemplateSyntaxError", "two default slots")
            if owner.default_slot is None:
                owner.default_slot = name
            if name != "default" and name in fills and "default" in fills:
                raise ModelError("TemplateSyntaxError", "slot filled twice")
        fill_name = "default" if (is_def and "default" in fills) else name
        f = fills.get(fill_name)
        if f is None:
            if is_req:
                raise ModelError("TemplateSyntaxError", "required slot unfilled")
            self.probe("slot_default_content")
            self.render_nodes(body, env, owner, prov, out, ck)
            return
        self.probe("slot_filled")
        between = f.env.layers[f.tag_depth:]
        if "extra_context_as_code" in self.quirks:
            # Known finding F15: how the library really merges and places the variables captured with a fill
            # (slots.py FillNode._extract_fill + render_func): one dict made of the bindings between tag and fill,
            # then overwritten by EVERY {% for %} layer visible at the fill (also those around the component tag);
            # inserted below the last component data layer of the context the fill renders in - which is the data of
            # the component the fill was written in (isolated), or the very top when the key override layer is last.
            extra = {}
            for _, d in between:
                extra.update(d)
            for tag, d in f.env.layers:
                if tag == "loop" and not f.implicit:  # (a body taken as the implicit default fill captures nothing)
                    extra.update(d)
            if self.mode == "isolated" or f.only:
                layers = list(f.env.layers[:f.tag_depth])
                target = ("data", f.owner.idx) if f.owner is not None else None
                on_top = False
                target_any_data = False
            else:
                # "the last component layer" of the context the slot is rendered in: that of the slot's owner, or - when
                # the slot itself sits in fill content that is being rendered inside another component - that component's
                layers = list(env.layers)
                target = ("data", owner.idx)
                on_top = f.ck is not None
                target_any_data = True
            pos = None
            for k, (tag, _) in enumerate(layers):
                if tag == target or (target_any_data and (tag == "ovr" or (isinstance(tag, tuple) and tag[0] == "data"))):
                    pos = k
            # the merged dict carries a `forloop` key whenever a loop layer went into it: the library then takes it
            # for a loop layer itself (it is merged again into fills nested deeper, and forwarded by F7's mechanism)
            etag = "loop" if "forloop" in extra else "extra"
            if on_top or pos is None:
                # ("ovr": the layer that re-binds the component key to the fill's own component while it renders; it holds
                # no variables but IS the last component layer for whatever is inserted during that render)
                fenv = Env(tuple(layers) + ((etag, extra),) + ((("ovr", {}),) if on_top else ()))
            else:
                fenv = Env(tuple(layers[:pos]) + ((etag, extra),) + tuple(layers[pos:]))
        elif self.mode == "isolated" or f.only:
            # lexical: the environment at the {% component %} tag + the loops the fill sits in
            fenv = f.env
        else:
            # django: inner-component data > variables bound between the component tag and the fill > outer variables;
            # bindings made by the inner template around the slot stay on top (they are part of the inner context)
            layers = list(env.layers)
            pos = None
            for k, (tag, _) in enumerate(layers):
                if tag == ("data", owner.idx):
                    pos = k
            if pos is None:
                fenv = Env(tuple(layers) + tuple(between))
            else:
                fenv = Env(tuple(layers[:pos]) + tuple(between) + tuple(layers[pos:]))
        al = {}
        if f.data_alias:
            al[f.data_alias] = kwargs
        if f.default_alias:
            def thunk(o, body=body, env=env, owner=owner, prov=prov, ck=ck):
                self.render_nodes(body, env, owner, prov, o, ck)

            al[f.default_alias] = DefaultRef(thunk)
        if al:
            fenv = fenv.push("alias", al)
        # which component key the real context carries while the fill renders (decides root vs deferred only)
        if self.mode == "isolated" or f.only:
            fck = f.ck
        else:
            fck = f.ck if f.ck is not None else ck
        if f.owner is not owner:
            self.probe("fill_crosses_boundary")
        self.render_nodes(f.body, fenv, f.owner, prov, out, fck)

    # ------------------------------------------------------------------ deferred rendering
    def expand(self, inst):
        """Render the template of `inst`: returns its piece stream (strings, element marks, child Insts)."""
        self.steps += 1
        if self.steps > self.step_cap:
            raise ModelError("MODEL-STEP-CAP", "model exceeded its own step cap")
        pieces = []
        if inst.comp is None:  # dynamic wrapper
            self.event("orb:dynamic-internal", inst)
            cd = self.comps[inst.dyn_target]
            tgt = Inst(len(self.insts), "dynamic", cd)
            tgt.parent = inst
            self.insts.append(tgt)
            tgt.fills = inst.fills
            tgt.prov = inst.prov
            self.gcd(tgt, inst.kw, inst.prov)
            tgt.env = inst.env.push(("data", tgt.idx), tgt.data)
            pieces.append(tgt)
            return pieces
        if inst.comp.get("hooks"):
            self.event("orb:" + inst.comp["name"], inst)
        prev = self.cur
        self.cur = inst
        try:
            self.render_nodes(inst.comp["tmpl"], inst.env, inst, inst.prov, pieces, ck=inst)
        finally:
            self.cur = prev
        return pieces

    def full_render(self, root, out):
        """Depth-first, document-order expansion (what component_post_render's queue does)."""
        work = [("open", root)]
        while work:
            op, x = work.pop()
            if op == "open":
                pieces = self.expand(x)
                out.append(("inst_open", x.idx))
                work.append(("close", x))
                for p in reversed(pieces):
                    if isinstance(p, Inst):
                        work.append(("open", p))
                    else:
                        work.append(("piece", p))
            elif op == "piece":
                out.append(x)
            else:
                if x.comp is not None and x.comp.get("hooks"):
                    self.event("ora:" + x.comp["name"], x)
                out.append(("inst_close", x.idx))


# ---------------------------------------------------------------------------------------------
# post-processing of the model's token stream
# ---------------------------------------------------------------------------------------------
def stream_text(stream):
    """Plain text of the stream with elements rendered without library attributes."""
    out = []
    for t in stream:
        if isinstance(t, str):
            out.append(t)
        elif t[0] == "open":
            out.append('<%s data-e="%s">' % (t[1], t[2]))
        elif t[0] == "close":
            out.append("</%s>" % t[1])
    return "".join(out)


def stream_structure(stream):
    """Document-order list of elements: (eid, lexical owner idx, [instances it is a root of]);
    plus the pre-order list of instance idxs (first-appearance order)."""
    elems = []
    order = []
    open_insts = []  # (idx, entry_depth)
    depth = 0
    for t in stream:
        if isinstance(t, str):
            continue
        if t[0] == "inst_open":
            open_insts.append((t[1], depth))
            order.append(t[1])
        elif t[0] == "inst_close":
            open_insts.pop()
        elif t[0] == "open":
            roots = []
            for idx, d in reversed(open_insts):
                if d == depth:
                    roots.append(idx)
                else:
                    break
            elems.append((t[2], t[3], sorted(roots)))
            depth += 1
        elif t[0] == "close":
            depth -= 1
    return elems, order


def run_model(prog, quirks=()):
    """Returns dict(result=("ok", text)|("err", kind), model=Model, stream=...)."""
    m = Model(prog, quirks=quirks)
    try:
        stream = m.render_page()
    except TooBig:
        return {"result": ("toobig", "TooBig", "more than %d node renders" % NODE_CAP), "model": m, "stream": None}
    except ModelError as e:
        return {"result": ("err", e.kind, e.msg), "model": m, "stream": None}
    return {"result": ("ok", stream_text(stream)), "model": m, "stream": stream}
