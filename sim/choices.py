"""Choice engine: one list of small integers decides a whole simulated run.

Random mode  : Choices(seed=S)            -> draws come from random.Random(S)
Replay mode  : Choices(prefix=[...])      -> draws come from the list (clamped), then 0
Every generator is written so that 0 is the simplest choice; the recorded list
(`.draws`) is the authoritative replay content and what the shrinker works on.
Nothing here reads a clock or any other source of nondeterminism.
"""
import hashlib
import random
from typing import List, Optional, Sequence


def derive_seed(*parts) -> int:
    h = hashlib.blake2b(repr(parts).encode(), digest_size=8).digest()
    return int.from_bytes(h, "big")


class Choices:
    __slots__ = ("rng", "prefix", "draws", "pos", "labels", "keep_labels", "index", "base_seed")

    def __init__(self, seed: Optional[int] = None, prefix: Optional[Sequence[int]] = None, keep_labels: bool = False):
        self.rng = random.Random(seed) if (seed is not None and prefix is None) else None
        self.prefix = list(prefix) if prefix is not None else None
        self.draws: List[int] = []
        self.labels: List[str] = []
        self.keep_labels = keep_labels
        self.pos = 0
        self.index = None      # run index / VERIF_SEED of a batch run (None in replay): used by systematic sweeps only
        self.base_seed = None

    # -- primitive ---------------------------------------------------------
    def draw(self, n: int, label: str = "") -> int:
        """Integer in [0, n). n <= 1 consumes nothing."""
        if n <= 1:
            return 0
        if self.prefix is not None:
            v = self.prefix[self.pos] if self.pos < len(self.prefix) else 0
            if v >= n:
                v = n - 1
            elif v < 0:
                v = 0
        elif self.rng is not None:
            v = self.rng.randrange(n)
        else:
            v = 0
        self.pos += 1
        self.draws.append(v)
        if self.keep_labels:
            self.labels.append(label)
        return v

    def draw_or(self, v: int, n: int, label: str = "") -> int:
        """A draw whose value is decided by the caller (systematic enumeration) unless a prefix is being replayed;
        recorded like any other draw, so the draw list stays the authoritative replay content."""
        if n <= 1:
            return 0
        if self.prefix is not None:
            return self.draw(n, label)
        v = max(0, min(n - 1, v))
        self.pos += 1
        self.draws.append(v)
        if self.keep_labels:
            self.labels.append(label)
        return v

    def adopt(self, draws: Sequence[int]) -> None:
        """Record draws made on another Choices object (same generator code) as this run's own."""
        self.draws.extend(draws)
        self.pos += len(draws)
        if self.keep_labels:
            self.labels.extend([""] * len(draws))

    def weighted(self, weights: Sequence[int], label: str = "") -> int:
        """Index i with probability weights[i]/sum; the *index* is what is recorded (0 = simplest)."""
        n = len(weights)
        if n <= 1:
            return 0
        if self.prefix is not None or self.rng is None:
            return self.draw(n, label)
        tot = sum(weights)
        r = self.rng.randrange(tot)
        acc = 0
        v = n - 1
        for i, w in enumerate(weights):
            acc += w
            if r < acc:
                v = i
                break
        self.pos += 1
        self.draws.append(v)
        if self.keep_labels:
            self.labels.append(label)
        return v

    # -- helpers -----------------------------------------------------------
    def chance(self, num: int, den: int, label: str = "") -> bool:
        """True with probability num/den; recorded as 0 (False) / 1 (True)."""
        if num <= 0:
            return False
        return self.weighted([den - num, num], label) == 1

    def choice(self, seq: Sequence, label: str = ""):
        return seq[self.draw(len(seq), label)]

    def int_between(self, lo: int, hi: int, label: str = "") -> int:
        """lo..hi inclusive, lo simplest."""
        return lo + self.draw(hi - lo + 1, label)

    def small(self, hi: int, label: str = "", p_more_num: int = 1, p_more_den: int = 2) -> int:
        """Geometric-ish count in [0, hi] (0 simplest): keeps adding one with probability p."""
        k = 0
        while k < hi and self.chance(p_more_num, p_more_den, label):
            k += 1
        return k

    def subset(self, seq: Sequence, label: str = "", num: int = 1, den: int = 2) -> list:
        return [x for x in seq if self.chance(num, den, label)]

    def fork_seed(self, label: str = "") -> int:
        """A 30-bit sub-seed (for bulk streams such as the id generator) recorded as one draw."""
        return self.draw(1 << 30, label)


def trim(draws: Sequence[int]) -> List[int]:
    d = list(draws)
    while d and d[-1] == 0:
        d.pop()
    return d
