"""The simulated world of one run: id source, virtual clock, fault plan, event log, probes.

Only seams that the library resolves at call time are used (no change in /repo):
  django_components.util.misc.generate      -> seeded unique ids over the real alphabet
  django.core.cache.backends.locmem.time    -> virtual clock (LocMem TTL variant)
  settings.COMPONENTS / CACHES              -> knobs and the SimCache backend
"""
import gc
import hashlib
import json
import random
import threading
from collections import Counter

CURRENT = None  # the World of the run executing in this (child) process


class CustomTwoArgs(Exception):
    pass


class CustomTypeError(TypeError):
    """A user exception deriving from a builtin that the library itself raises and catches in places (seeded C06d-3)."""


class StepBudgetExceeded(BaseException):
    """Raised inside a run when the deterministic step budget is exhausted (violation class HANG)."""


def _exc_factories():
    from django.template import TemplateSyntaxError

    return [
        ("ValueError(msg)", lambda: ValueError("boom-msg")),
        ("KeyError(str)", lambda: KeyError("boomkey")),
        ("TemplateSyntaxError", lambda: TemplateSyntaxError("boom-tse")),
        ("ValueError()", lambda: ValueError()),
        ("Custom(a,7)", lambda: CustomTwoArgs("boom-a", 7)),
        ("KeyError(5)", lambda: KeyError(5)),
        ("RuntimeError(2 lines)", lambda: RuntimeError("boom-l1\nboom-l2")),
        ("ValueError(None)", lambda: ValueError(None)),
        ("TypeError(msg)", lambda: TypeError("boom-te")),
        ("CustomTypeError(TypeError)", lambda: CustomTypeError("boom-cte")),
    ]


EXC_KINDS = None


def exc_kinds():
    global EXC_KINDS
    if EXC_KINDS is None:
        EXC_KINDS = _exc_factories()
    return EXC_KINDS


class _Time:
    """Stand-in for the `time` module inside django.core.cache.backends.locmem."""

    def time(self):
        from sim import simcache

        return 1_700_000_000.0 + simcache.now()


class TaskState:
    __slots__ = ("fp_count", "fp_log", "fault_at", "fault_exc_kind", "fired", "fault_site")

    def __init__(self):
        self.fp_count = 0
        self.fp_log = []
        self.fault_at = None  # 1-based invocation index that raises
        self.fault_site = None  # alternatively: first invocation of this site label raises
        self.fault_exc_kind = 0
        self.fired = None  # (index, site, exception object)


class World:
    def __init__(self, id_seed=0, unique_ids=False):
        # unique_ids=True: ids come from a stub that never repeats one (used where thousands of ids are drawn in one
        # run: the library's documented 6-character birthday bound is not under test). Default: the library's REAL
        # nanoid code runs, fed by a seeded os.urandom stand-in.
        self.unique_ids = unique_ids
        self.events = []
        self.probes = Counter()
        self.fault_counts = Counter()
        self.id_rng = random.Random(id_seed)
        self.used_ids = set()
        self.ids_issued = 0
        self.main = TaskState()
        self._tls = threading.local()
        self.sim_time = 0.0

    # ---- tasks (thread-sim gives each thread its own fault-point counter) ----
    def task(self) -> TaskState:
        return getattr(self._tls, "task", None) or self.main

    def set_task(self, ts):
        self._tls.task = ts

    def begin_op(self, fault_at=None, exc_kind=0, fault_site=None):
        ts = self.task()
        ts.fp_count = 0
        ts.fp_log = []
        ts.fault_at = fault_at
        ts.fault_site = fault_site
        ts.fault_exc_kind = exc_kind
        ts.fired = None
        return ts

    # ---- seams ----
    def gen_id(self, alphabet, size):
        while True:
            s = "".join(alphabet[self.id_rng.randrange(len(alphabet))] for _ in range(size))
            if s not in self.used_ids:
                self.used_ids.add(s)
                self.ids_issued += 1
                return s

    def urandom(self, n):
        return bytes(self.id_rng.getrandbits(8) for _ in range(n))

    def fault_point(self, site):
        ts = self.task()
        ts.fp_count += 1
        ts.fp_log.append(site)
        hit = False
        if ts.fired is None:
            if ts.fault_at is not None and ts.fp_count == ts.fault_at:
                hit = True
            elif ts.fault_site is not None and site == ts.fault_site:
                hit = True
        if hit:
            name, fac = exc_kinds()[ts.fault_exc_kind % len(exc_kinds())]
            exc = fac()
            ts.fired = (ts.fp_count, site, exc, name)
            self.fault_counts["EXC"] += 1
            self.fault_counts["EXC:" + site.split(":")[0]] += 1
            raise exc

    def log(self, *ev):
        self.events.append(ev)

    def digest(self):
        return hashlib.blake2b(json.dumps(self.events, sort_keys=True, default=repr).encode(), digest_size=12).hexdigest()


def fault_point(site):
    w = CURRENT
    if w is not None:
        w.fault_point(site)


def _generate(alphabet, size):
    w = CURRENT
    if w is None:
        raise RuntimeError("id requested outside a simulated run")
    if w.unique_ids:
        return w.gen_id(alphabet, size)
    import django_components.util.nanoid as nano

    s = nano.generate(alphabet, size)  # the library's own generator (looked up at call time), on seeded entropy
    w.used_ids.add(s)
    w.ids_issued += 1
    return s


def _urandom(n):
    w = CURRENT
    if w is None:
        raise RuntimeError("entropy requested outside a simulated run")
    return w.urandom(n)


def install(world):
    """Make `world` the current one and (re)install the seams. Called once per run, in the child."""
    global CURRENT
    CURRENT = world
    import django.core.cache.backends.locmem as locmem
    import django_components.util.misc as misc

    import django_components.util.nanoid as nano

    misc.generate = _generate
    nano.urandom = _urandom
    locmem.time = _Time()
    # second line of defence, for trees in which the id source has been re-written (a behaviour-preserving change may
    # well draw its entropy from os.urandom / secrets / random instead of the nanoid module): the process-wide entropy
    # sources are seeded too, so that a run stays a pure function of its seed. Nothing in the unchanged library uses them.
    import os
    import random

    os.urandom = _urandom
    random._urandom = _urandom
    random.seed(world.id_rng.getrandbits(32))


# -------------------------------------------------------------------------------------------
# knobs
# -------------------------------------------------------------------------------------------
CACHE_VARIANTS = ["default-locmem", "sim", "sim-ttl", "locmem-ttl"]
CACHE_SIZES = [128, 0, 1, 2, 3, None]  # index 0 = the value the test-suite uses
MODES = ["django", "isolated"]


def apply_config(mode="django", template_cache_size=128, cache_variant="default-locmem", extra=None):
    from django.conf import settings

    import django_components.cache as djc_cache

    comps = {
        "autodiscover": False,
        "dirs": [],
        "app_dirs": [],
        "context_behavior": mode,
        "template_cache_size": template_cache_size if template_cache_size is not None else -1,
    }
    if template_cache_size is None:
        # `None` cannot be expressed through the setting (it means "use default 128"); an unbounded
        # LRUCache is installed directly instead.
        comps["template_cache_size"] = 128
    if cache_variant != "default-locmem":
        comps["cache"] = cache_variant
    if extra:
        comps.update(extra)
    settings.COMPONENTS = comps
    djc_cache.template_cache = None
    djc_cache.component_media_cache = None
    if template_cache_size is None:
        from django_components.util.cache import LRUCache

        djc_cache.template_cache = LRUCache(maxsize=None)


_PRIVATE_REGISTRY = [None]
PRIVATE_TAG = "pcomp"


def component_tag():
    """Start tag of the registry the generated components live in."""
    return PRIVATE_TAG if _PRIVATE_REGISTRY[0] is not None else "component"


def use_private_registry(mode):
    """Generated components of this run go into a private ComponentRegistry (own Library among the engine's builtins,
    RegistrySettings(context_behavior=mode)); the dynamic component is registered there as well."""
    from django.template import Engine, Library

    from django_components import ComponentRegistry, DynamicComponent, RegistrySettings
    from django_components.tag_formatter import ComponentFormatter

    lib = Library()
    # (the library refuses two registries behind one start tag, so the private one gets a tag of its own)
    reg = ComponentRegistry(library=lib, settings=RegistrySettings(context_behavior=mode,
                                                                   tag_formatter=ComponentFormatter(PRIVATE_TAG)))
    reg.register("dynamic", DynamicComponent)
    Engine.get_default().template_builtins.append(lib)
    _PRIVATE_REGISTRY[0] = reg
    return reg


def current_registry():
    """The registry generated components are registered in (None = the library's default registry)."""
    return _PRIVATE_REGISTRY[0]


def media_cache_fault(kind, pick=None):
    """Inject loss into whatever backend the media cache currently is. Returns number of keys lost."""
    import django_components.cache as djc_cache
    from sim import simcache

    cache = djc_cache.get_component_media_cache()
    if isinstance(cache, simcache.SimCache):
        if kind == "clear":
            return simcache.fault_clear(cache._name)
        if kind == "evict":
            return len(simcache.fault_evict(cache._name, pick))
        if kind == "expire":
            simcache.advance(301.0)
            return -1
    else:  # LocMemCache: real code, driven through its public API / the patched clock
        if kind == "clear":
            n = len(cache._cache)
            cache.clear()
            return n
        if kind == "evict":
            keys = sorted(cache._cache.keys())
            victims = [k for i, k in enumerate(keys) if pick(i, k)]
            for k in victims:
                with cache._lock:
                    cache._delete(k)
            return len(victims)
        if kind == "expire":
            simcache.advance(301.0)
            return -1
    raise ValueError(kind)


# -------------------------------------------------------------------------------------------
# observation of library state (Appendix C of DESIGN.md); never mutates
# -------------------------------------------------------------------------------------------
def registries():
    import django_components.perfutil.component as pc
    import django_components.perfutil.provide as pp

    # (observation only; a container that a refactoring has renamed or removed is simply not observed - the
    # behavioural oracles, weakref liveness and object growth, do not depend on these names)
    def keys(mod, name):
        try:
            return sorted(map(str, getattr(mod, name, ())))
        except Exception:
            return []

    return {
        "component_context_cache": keys(pc, "component_context_cache"),
        "component_renderer_cache": keys(pc, "component_renderer_cache"),
        "child_component_attrs": keys(pc, "child_component_attrs"),
        "provide_cache": keys(pp, "provide_cache"),
        "provide_references": keys(pp, "provide_references"),
        "all_reference_ids": keys(pp, "all_reference_ids"),
    }


def registries_nonempty():
    return {k: v for k, v in registries().items() if v}


def lru_wellformed(lru):
    """Structural invariant of util.cache.LRUCache; returns None or a description of the damage."""
    if not all(hasattr(lru, a) for a in ("head", "tail", "cache", "maxsize")):
        return None  # another implementation: only the behavioural oracles apply
    keys_fwd = []
    node = lru.head.next
    prev = lru.head
    guard = len(lru.cache) + 5
    while node is not None and node is not lru.tail:
        if node.prev is not prev:
            return f"prev pointer of {node.key!r} inconsistent"
        keys_fwd.append(node.key)
        prev = node
        node = node.next
        guard -= 1
        if guard < 0:
            return "forward walk does not terminate (cycle or too long)"
    if node is None:
        return "forward walk fell off the list"
    if lru.tail.prev is not prev:
        return "tail.prev inconsistent"
    if len(set(map(repr, keys_fwd))) != len(keys_fwd):
        return f"duplicate keys in list {keys_fwd!r}"
    if set(keys_fwd) != set(lru.cache.keys()):
        return f"list keys {keys_fwd!r} != dict keys {list(lru.cache.keys())!r}"
    for k, n in lru.cache.items():
        if n.key != k:
            return f"dict key {k!r} maps to node with key {n.key!r}"
    if lru.maxsize is not None and lru.maxsize > 0 and len(lru.cache) > lru.maxsize:
        return f"size {len(lru.cache)} > maxsize {lru.maxsize}"
    if lru.maxsize is not None and lru.maxsize <= 0 and len(lru.cache) > 0:
        return f"size {len(lru.cache)} with maxsize {lru.maxsize}"
    return None


def lru_order(lru):
    out = []
    if not hasattr(lru, "head"):
        return out
    node = lru.head.next
    guard = len(lru.cache) + 5
    while node is not None and node is not lru.tail and guard > 0:
        out.append(node.key)
        node = node.next
        guard -= 1
    return out


def gc_now():
    gc.collect()
