"""C18 part B: the template cache is observationally transparent (state-sim through the library).

One run: a history of cached_template() calls (variants: default Template class / a subclass, engine given or
not), renders of components whose inline templates are the same sources, compile attempts of a source with a
syntax error (raises between the cache's get and set) and cache clears is executed under EVERY cache size
(0, 1, 2, 3, 128, unbounded) in turn.  Outputs must be identical across sizes and equal to compiling afresh;
`cached_template(k) is cached_template(k)` must hold exactly while the reference LRU says k is resident; the
cache structure must stay well-formed and within its bound after every operation.
"""
import hashlib
import json

from sim import world
from sim.engines.lru import RefLRU
from sim.engines.render import normalise

SIZES = [0, 1, 2, 3, 128, None]


def default_params(tier):
    return {"max_ops": 10 if tier == "quick" else 24, "max_sources": 5}


def source(i):
    # every source {% load %}s one of two libraries that define the filter `label` differently, and uses it both in the
    # template itself and inside a nested template string given to one of the LIBRARY's tags (compiled by the library's
    # own expression parser): what a cache remembers about one source must not leak into another (seeded change C18f-3)
    return ('{%% load simlib_%s %%}S%d:{{ v }}{%% if v %%}+{%% endif %%}{%% for x in l %%}{{ x }}{%% endfor %%}{{ v|label }}'
            '{%% component "tcleaf" t="{{ v|label }}" / %%}' % ("ab"[i % 2], i))


BAD = "{% if %}broken{% endfor %}"


def run(ch, params, decoded=False):
    from django.template import Context, Template, TemplateSyntaxError, engines

    import django_components.cache as djc_cache
    from django_components import Component, cached_template

    n_src = 2 + ch.draw(params["max_sources"] - 1, "n_sources")
    n_ops = 2 + ch.draw(params["max_ops"] - 1, "n_ops")
    ops = []
    for _ in range(n_ops):
        k = ch.weighted([6, 4, 2, 1], "op")  # cached_template / component render / bad compile / clear
        if k == 0:
            ops.append(["cached_template", ch.draw(n_src, "src"), ch.weighted([4, 1], "cls"), ch.weighted([4, 1], "engine")])
        elif k == 1:
            ops.append(["render_component", ch.draw(n_src, "src")])
        elif k == 2:
            ops.append(["bad_compile"])
        else:
            ops.append(["clear"])

    class MyTemplate(Template):
        pass

    used = []   # the compiled Template a component render worked with (public hook argument)

    def orb(self, context, template):
        used.append(template)

    comp_classes = [type(f"TC{i}", (Component,), {"template": source(i), "__module__": "sim.generated", "on_render_before": orb,
                                                   "get_context_data": (lambda self, **kw: {"v": kw.get("v"), "l": ["a", "b"]})})
                    for i in range(n_src)]
    engine = engines["django"].engine
    w = world.World(id_seed=1)
    world.install(w)
    from django_components import registry as _registry

    # (the leaf hands over a ready-made Template object, so that it does not itself occupy an entry of the cache under test)
    leaf_tpl = Template("({{ t }})")
    _registry.register("tcleaf", type("TCLeaf", (Component,), {"get_template": (lambda self, context: leaf_tpl),
                                                               "__module__": "sim.generated",
                                                               "get_context_data": (lambda self, t=None: {"t": t})}))
    violations = []
    stats = {"ops": n_ops * len(SIZES)}
    outputs_by_size = {}
    evictions = 0
    for size in SIZES:
        world.apply_config(template_cache_size=size)
        ref = RefLRU(size)
        last = {}  # key -> Template object last returned (kept alive so identity is meaningful)
        outs = []
        for oi, op in enumerate(ops):
            problem = None
            try:
                if op[0] == "cached_template":
                    _, si, cv, ev = op
                    key = (cv, si, ev)
                    resident = ref.get(key) is not None
                    tpl = cached_template(source(si), template_cls=MyTemplate if cv else None, engine=engine if ev else None)
                    if not resident:
                        ref.set(key, 1)
                    if cv and not isinstance(tpl, MyTemplate):
                        problem = ("WRONG-TEMPLATE-CLASS", "a template of another class was returned for the key")
                    elif resident and last.get(key) is not tpl:
                        problem = ("IDENTITY", f"key {key} is resident per the reference LRU but a different Template object came back")
                    elif not resident and any(t is tpl for t in last.values()):
                        problem = ("IDENTITY", f"key {key} is not resident per the reference LRU but an old Template object came back")
                    last[key] = tpl
                    out = normalise(tpl.render(Context({"v": si, "l": ["a", "b"]})))
                    fresh = normalise((MyTemplate if cv else Template)(source(si)).render(Context({"v": si, "l": ["a", "b"]})))
                    if out != fresh and not problem:
                        problem = ("OUTPUT", f"cached render {out!r} != fresh compile {fresh!r}")
                    outs.append(out)
                elif op[0] == "render_component":
                    si = op[1]
                    key = (0, si, 0)
                    # a component render is one use of its template's cache entry (a get(), or a set() after a miss): the
                    # entry becomes the most recently used one; the Template object it worked with is observed through
                    # the on_render_before hook - NOT through another cached_template() call, which would itself refresh
                    # the entry and hide a render that does not
                    resident = ref.get(key) is not None
                    if not resident:
                        ref.set(key, 1)
                    del used[:]
                    out = normalise(str(comp_classes[si].render(kwargs={"v": si})))
                    fresh = normalise(Template(source(si)).render(Context({"v": si, "l": ["a", "b"]})))
                    if str(out) != fresh:
                        problem = ("OUTPUT", f"component render {str(out)!r} != fresh compile {fresh!r}")
                    elif len(used) != 1:
                        problem = ("HOOK", f"on_render_before ran {len(used)} times in one render")
                    elif resident and last.get(key) is not used[0]:
                        problem = ("IDENTITY", f"key {key} is resident per the reference LRU but the component rendered with a different Template object")
                    elif not resident and any(t is used[0] for t in last.values()):
                        problem = ("IDENTITY", f"key {key} is not resident per the reference LRU but the component rendered with an old Template object")
                    outs.append(str(out))
                    if used:
                        last[key] = used[0]
                elif op[0] == "bad_compile":
                    ref.get((0, "bad", 0))
                    try:
                        cached_template(BAD)
                        problem = ("MISSING-ERROR", "a template with a syntax error compiled")
                    except TemplateSyntaxError:
                        outs.append("TSE")
                else:
                    cache = djc_cache.get_template_cache()
                    cache.clear()
                    ref.clear()
                    last.clear()
                    outs.append("cleared")
            except Exception as e:
                problem = ("EXCEPTION", f"{type(e).__name__}: {e}")
            if not problem:
                cache = djc_cache.get_template_cache()
                wf = world.lru_wellformed(cache)
                if wf:
                    problem = ("STRUCTURE", wf)
                elif hasattr(cache, "cache") and len(cache.cache) != len(ref.d):
                    problem = ("RESIDENCY", f"{len(cache.cache)} entries cached, reference LRU holds {len(ref.d)}")
            if problem:
                violations.append({"class": problem[0], "fingerprint": [op[0], problem[0]],
                                   "detail": {"size": size, "op_index": oi, "op": op, "what": problem[1]}})
                break
        evictions += ref.evictions
        outputs_by_size[str(size)] = outs
        if violations:
            break
    if not violations:
        base = outputs_by_size[str(SIZES[0])]
        for size in SIZES[1:]:
            if outputs_by_size[str(size)] != base:
                violations.append({"class": "SIZE-DEPENDENT", "fingerprint": ["outputs"],
                                   "detail": {"size": size, "outputs": outputs_by_size[str(size)], "size0": base}})
                break
    stats["evictions_in_reference"] = evictions
    stats["stratum:tcache"] = 1
    key = hashlib.blake2b(json.dumps([n_src, ops]).encode(), digest_size=8).hexdigest()
    out = {"violations": violations, "key": key, "nontrivial": evictions > 0, "stats": stats, "digest": key}
    if decoded or violations:
        out["decoded"] = {"n_sources": n_src, "ops": ops, "sizes": [str(s) for s in SIZES]}
    return out
