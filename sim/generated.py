"""Home module of the component classes generated per run (the library inspects sys.modules[cls.__module__])."""
