"""C01: each slot renders the fill addressed to it (render-sim, structure mode).

One run = one world (knobs, id stream) in which a drawn history prefix executes (other renders, some of
them failing at a drawn callback; media-cache clear; GC) and then the checked program is rendered through
its entry variants: the plain page, the page with every component tag routed through the dynamic
component, and - for single-component pages - Component.render(kwargs, slots).  Every variant must
refine the reference renderer.
"""
from sim import world
from sim.model import emit, prog as progmod, ref
from sim.engines import render as R


def default_params(tier):
    p = progmod.default_params(tier, forbid=["provide", "inject_default"])
    p["budget_mult"] = 5000
    p["loop_ladder"] = 8
    p["reentrant"] = 10   # re-entrant fill family (prog.generate_reentrant)
    p["py_entry"] = 6
    p["max_prefix"] = 3
    p["includes"] = 10   # 1/10 of the elements / component tags sit in a partial pulled in with {% include %}
    return p


def run(ch, params, decoded=False):
    knobs = R.draw_knobs(ch, registries=True)
    prog = progmod.generate(ch, params)
    mode = prog["mode"]
    prefix = R.gen_prefix_ops(ch, params, mode, params.get("max_prefix", 0))
    want_dyn = (not prog["py_entry"]) and ch.chance(1, 3, "variant_dynamic")
    slot_funcs = ch.draw(8, "slot_funcs") if prog["py_entry"] else 0
    rerender = None
    if not prog["py_entry"] and ch.chance(1, 3, "rerender"):
        n2 = ch.draw(4, "rerender_len")
        rerender = {"pl": [("" if ch.chance(1, 4, "rr_falsy") else f"r{k}") for k in range(n2)],
                    "pt": not ch.chance(1, 2, "rr_pt"), "pf": ch.chance(1, 2, "rr_pf"),
                    "pn": ["b", "a"][: 1 + ch.draw(2, "rr_pn")], "pa": "" if ch.chance(1, 4, "rr_pa") else "QA"}
    w = R.start_world(knobs, mode)
    violations = []
    stats = {"mode=" + mode: 1, "prefix_ops": len(prefix), "registry=" + knobs.get("registry", "default"): 1}
    R.run_prefix_ops(prefix, w, stats)

    exp = ref.run_model(prog)
    _skip = R.skipped_if_too_big(exp)
    if _skip is not None:
        return _skip
    model = exp["model"]
    classes = emit.build_classes(prog)
    budget = params["budget_mult"] * max(1, model.node_renders) + 300_000
    observed = {}

    def check(variant, real, expected):
        observed[variant] = [real[0], R.normalise(real[1])] if real[0] == "ok" else list(real[:3])
        bad = R.compare(real, expected)
        w.log(variant, observed[variant])
        if bad:
            violations.append({"class": bad[0], "fingerprint": [variant, bad[0], bad[1]],
                               "detail": {"what": bad[2], "variant": variant}})

    w.begin_op()
    check("tag", R.real_render_page(prog, classes, w, budget=budget), exp["result"])
    stats["user_callbacks"] = w.main.fp_count
    stats["variant:tag"] = 1
    if want_dyn and not violations:
        dprog = R.rename_program(R.all_dynamic(prog), "d")
        dexp = ref.run_model(dprog)
        if dexp["result"][:2] != exp["result"][:2] and not (dexp["result"][0] == "err" and exp["result"][0] == "err"):
            raise AssertionError(f"model disagrees with itself on the dynamic variant: {exp['result']} vs {dexp['result']}")
        dclasses = emit.build_classes(dprog)
        w.begin_op()
        check("dynamic", R.real_render_page(dprog, dclasses, w, budget=budget * 2), dexp["result"])
        stats["variant:dynamic"] = 1
    # (Cls.render() binds the instance to the DEFAULT registry, i.e. to the project-wide mode: not comparable when the
    #  run's components live in a private registry configured with the other mode)
    if prog["py_entry"] and not violations and knobs.get("registry") != "private-opposite":
        w.begin_op()
        check("python", R.real_render_python(prog, classes, w, budget=budget, slot_funcs=slot_funcs), exp["result"])
        stats["variant:Component.render"] = 1
    if rerender and not violations and not prog["py_entry"]:
        # history on the SAME compiled page: one Template object (same nodes, same cached component templates) rendered
        # again with other data - lists of other lengths, flipped booleans - must still refine the model
        from django.template import Context, Template

        prog2 = dict(prog, ctx=dict(prog["ctx"], **rerender))
        exp2 = ref.run_model(prog2)
        if exp2["result"][0] == "toobig":
            return R.skipped_if_too_big(exp2)
        # (the step budget must cover the render with the OTHER data, which can be much larger than the first one)
        budget = max(budget, params["budget_mult"] * max(1, exp2["model"].node_renders) + 300_000)
        tpl = Template(emit.page_source(prog))
        for which, pr_, ex_ in (("first", prog, exp), ("second", prog2, exp2)):
            w.begin_op()
            try:
                with R.StepBudget(budget * 2):
                    real_ = ("ok", str(tpl.render(Context(dict(pr_["ctx"])))))
            except world.StepBudgetExceeded as e:
                real_ = ("hang", str(e))
            except RecursionError:
                real_ = ("hang", "RecursionError")
            except Exception as e:
                real_ = ("err", type(e).__name__, str(e), e)
            check("same-template-" + which, real_, ex_["result"])
            if violations:
                break
        stats["variant:same Template object re-rendered with other data"] = 1

    feats = R.program_features(prog, model)
    stats["result=" + exp["result"][0] + (":" + exp["result"][1] if exp["result"][0] == "err" else "")] = 1
    stats["probe:fill_crosses_component_boundary"] = 1 if feats["fill_crosses_boundary"] else 0
    stats["probe:slot_renders_default_content"] = 1 if feats["slot_default_content"] else 0
    stats["instances"] = feats["instances"]
    res = {
        "violations": violations,
        "key": R.skeleton_key(prog, extra=[sorted(observed)]),
        "nontrivial": bool(feats["fill_crosses_boundary"] or feats["slot_default_content"]) and exp["result"][0] == "ok",
        "stats": stats,
        "digest": w.digest(),
    }
    if decoded or violations:
        res["decoded"] = {"knobs": knobs, "history_prefix": R.decoded_ops(prefix), "program": R.decoded_program(prog),
                          "rerender_with": rerender,
                          "expected": list(exp["result"][:3]), "observed": observed}
    return res
