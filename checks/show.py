"""Pretty-print a replay file. Not a registered check."""
import json
import sys

d = json.load(open(sys.argv[1]))
print("property", d["property"], "class", d["class"], "fingerprint", d["fingerprint"], "draws", len(d["draws"]))
dec = d.get("decoded") or {}


def show_prog(p, ind="  "):
    print(ind + "mode:", p["mode"], "features:", p.get("features"))
    for k, v in p["components"].items():
        print(ind + f"{k} inj={v['injects']} hooks={v['hooks']}: {v['template']}")
    print(ind + "page:", p["page"])
    print(ind + "ctx:", p["context"])


for k, v in dec.items():
    if k == "program":
        show_prog(v)
    elif k == "history_prefix" or k == "ops":
        for op in v:
            if isinstance(op, dict) and op.get("program"):
                print("  op", {kk: vv for kk, vv in op.items() if kk != "program"})
                show_prog(op["program"], "      ")
            else:
                print("  op", op)
    else:
        print(" ", k, ":", json.dumps(v)[:1500])
print("detail:", json.dumps(d.get("detail"))[:2000])
