"""Run the repository's pinned test-suite (BASELINE.json command) and compare with its stable_pass list.

  python -m checks.baseline [repo_dir]     exit 0 iff every stable_pass test passes
"""
import json
import os
import subprocess
import sys
import tempfile
import xml.etree.ElementTree as ET

repo = sys.argv[1] if len(sys.argv) > 1 else "/repo"
base = json.load(open("/root/.vp/BASELINE.json"))
fd, xml = tempfile.mkstemp(suffix=".xml")
os.close(fd)
cmd = ["/venv/bin/python", "-m", "pytest", "-q", "-p", "no:cacheprovider", "--timeout=900",
       "--continue-on-collection-errors", "--junitxml=" + xml]
env = dict(os.environ)
env.pop("DJC_SRC", None)
if repo != "/repo":
    env["PYTHONPATH"] = os.path.join(repo, "src")
r = subprocess.run(cmd, cwd=repo, env=env, capture_output=True, text=True)
passed = set()
for tc in ET.parse(xml).getroot().iter("testcase"):
    ok = not any(ch.tag in ("failure", "error", "skipped") for ch in tc)
    if ok:
        passed.add(f"{tc.get('classname')}::{tc.get('name')}")
os.unlink(xml)
missing = [t for t in base["stable_pass"] if t not in passed]
print(f"stable_pass={len(base['stable_pass'])} passed_now={len(passed)} missing={len(missing)}")
for t in missing[:20]:
    print("  NOT PASSING:", t)
print(r.stdout.strip().splitlines()[-1] if r.stdout.strip() else r.stderr[-500:])
sys.exit(1 if missing else 0)
