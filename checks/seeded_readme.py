"""Regenerate seeded/README.md from seeded/*/meta.json."""
import glob
import json
import os

VERIF = os.path.dirname(os.path.dirname(os.path.abspath(__file__)))
rows = []
for d in sorted(glob.glob(os.path.join(VERIF, "seeded", "*", "meta.json"))):
    m = json.load(open(d))
    sid = os.path.basename(os.path.dirname(d))
    notes = os.path.join(os.path.dirname(d), "notes.md")
    first = ""
    if os.path.exists(notes):
        for line in open(notes):
            line = line.strip()
            if line and not line.startswith("#"):
                first = line[:220]
                break
    det = [k for k, v in m.get("checks_run", {}).items() if v.get("detected")]
    missed = [k for k, v in m.get("checks_run", {}).items() if not v.get("detected")]
    rows.append((sid, (m.get("property") or "").rstrip("bcdef"), "yes" if m.get("confirmed") else "NO", ", ".join(det) or "-", ", ".join(missed) or "-",
                 m.get("comment", ""), first))
out = ["# Seeded changes (written by independent sub-agents)", "",
       "Each directory holds `patch.diff` (applies to /repo HEAD with `git apply`), `demo.py` (fails with the change, passes",
       "without it), `notes.md` (the sub-agent's own description) and `meta.json` (what was confirmed here and which checks were",
       "run against it: `python -m checks.seeded <PROP> <N>`). The sub-agents were given only the text of one property and a",
       "scratch worktree; nothing from /verif. 'confirmed' = patch applies, demo passes without / fails with the change, the",
       "pinned suite (514 stable tests) still passes with it.", "",
       "| id | property | confirmed | detected by (quick tier) | run but not detected by | comment |", "|---|---|---|---|---|---|"]
for r in rows:
    out.append(f"| {r[0]} | {r[1]} | {r[2]} | {r[3]} | {r[4]} | {r[5]} |")
out += ["", "## What each change is (first line of the sub-agent's notes)", ""]
for r in rows:
    out.append(f"* **{r[0]}** - {r[6]}")
open(os.path.join(VERIF, "seeded", "README.md"), "w").write("\n".join(out) + "\n")
print("\n".join(out[8:8 + len(rows) + 2]))
