"""Per-property check specifications: which engines run, with which parameters and budgets."""

REAL_STATE = {
    "real": ["django_components (all of it, from the working tree)", "Django 5.1 template engine"],
    "stub": ["none needed: pure in-memory object, no I/O, clock or thread on this path"],
}


def _c18_parts(tier):
    q = tier == "quick"
    return [
        {"engine": "lru", "params": {"max_ops": 12 if q else 40}, "runs": 120_000 if q else 3_000_000,
         "per_fork": 400, "wall_s": 60 if q else 900},
    ]


def _c15_parts(tier):
    q = tier == "quick"
    return [
        {"engine": "registry", "params": {"max_ops": 10 if q else 25}, "runs": 60_000 if q else 2_000_000,
         "per_fork": 200, "wall_s": 60 if q else 900},
    ]


RENDER_REAL = {
    "real": ["django_components (all of it, from the working tree)", "Django 5.1 template engine",
             "djc_core_html_parser (native)", "LocMemCache (default media cache)"],
    "stub": ["id source (seeded unique ids over the real alphabet)", "user code (generated components, filters, tags)"],
}


def _c01_parts(tier):
    from sim.engines import c01
    q = tier == "quick"
    return [{"engine": "c01", "params": c01.default_params(tier), "runs": 20_000 if q else 600_000,
             "per_fork": 1, "wall_s": 90 if q else 1200}]


def _c05_parts(tier):
    from sim.engines import c05
    q = tier == "quick"
    return [{"engine": "c05", "params": c05.default_params(tier), "runs": 12_000 if q else 400_000,
             "per_fork": 1, "wall_s": 90 if q else 1200}]


SPECS = {
    "C05": {
        "level": "exploration",
        "parts": _c05_parts,
        "rule": "case = history of 1-6 page renders (provider/consumer programs, some failing at a drawn callback, GC "
                "in between) in one world; distinct = distinct blake2b of (mode, program skeletons, fault positions); "
                "non-trivial = at least one consumer's inject() is resolved to a provider by the reference model",
        "real_vs_stub": RENDER_REAL,
        "assumptions": ["reference renderer = provider stack along the rendered structure (DESIGN.md Appendix A)"],
    },
    "C01": {
        "level": "exploration",
        "parts": _c01_parts,
        "rule": "case = generated program (component library + page + context mode + knobs); distinct = distinct "
                "blake2b of the program skeleton (node kinds, nesting, slot/fill names, flags) x mode; non-trivial = "
                "model renders without error AND at least one fill is rendered inside another instance's slot or a "
                "slot falls back to its own default content",
        "real_vs_stub": RENDER_REAL,
        "assumptions": ["reference renderer = lexical semantics of DESIGN.md Appendix A"],
    },
    "C15": {
        "level": "exploration",
        "parts": _c15_parts,
        "rule": "case = (1-2 registries x formatter x protected-tags, op history over 3 names x 3 classes); distinct = "
                "distinct blake2b of it; non-trivial = the model raises on at least one op or a tag shared by two "
                "registered names loses one of them",
        "real_vs_stub": REAL_STATE,
        "no_faults_reason": "none applicable: the statement has no I/O, clock, thread or crash; histories only",
        "assumptions": ["each registry owns a private django.template.Library (as in the property's quantifier)",
                        "classes have distinct names (the library identifies a class by name+module hash)"],
    },
    "C18": {
        "level": "exploration",
        "parts": _c18_parts,
        "rule": "case = (maxsize, op sequence) drawn by the choice engine; distinct = distinct blake2b of it; "
                "non-trivial = the reference model evicted at least once or a get() changed the recency order",
        "real_vs_stub": REAL_STATE,
        "no_faults_reason": "none applicable to part A (pure data structure); part B injects compile failures",
        "assumptions": ["reference LRU (OrderedDict) is the specification of 'bounded LRU'"],
    },
}
