#!/bin/bash
# Every hand-written mutant / inverse of a repair against the check of its property (quick tier). Usage: checks/audit_all.sh [pattern]
for m in mutants/${1:-*}.patch; do
  b=$(basename $m .patch)
  case $b in revert-fix-*) p=$(echo $b | sed 's/revert-fix-\(C[0-9]*\)-.*/\1/');; *) p=${b%%-*};; esac
  r=$(VERIF_SELFTEST=0 /venv/bin/python -m checks.audit $m $p 2>&1 | grep "^$p tier" | tail -1 | grep -o "runs=[0-9]* .*exit=[0-9]")
  echo "$b $p $r"
done
