"""C07: concurrent renders in different threads do not interfere (thread-sim).

One run: 2-3 tasks are drawn (page renders of generated programs - own or one shared Template object -, a render
that fails at a drawn callback, cached_template() through a small template cache, first access of the assets of
fresh classes, a document-mode render_dependencies, pages and components written with {% extends %} / {% block %}).  A grandchild forked from the pristine image runs every task
alone (solo results, step counts = horizon).  The child then runs the same tasks under the baton scheduler with a
drawn, pre-materialised schedule.  Oracle: each thread's result equals its solo result; no foreign exception;
after join the per-render registries, the template LRU and the caches are as the solo runs leave them.
"""
import hashlib
import json
import os
import re
import traceback

from sim import sched as schedmod
from sim import world
from sim.model import emit, prog as progmod
from sim.engines import render as R

FOCI_BY_STRATUM = {
    "clean": ["compcache", "compcache", "misc", "media", "classattr", "classattr", "all"],
    "provide": ["provide", "provide", "compcache", "classattr", "all"],
    "lru": ["lru"],
    "media": ["media", "all"],
    "mixed": ["provide", "compcache", "compcache", "lru", "media", "misc", "classattr", "all"],
    "extends": ["tplflag", "tplflag", "tplflag", "misc", "compcache", "classattr", "all"],
    "view": ["misc", "misc", "compcache", "provide", "all"],
}

# ---- stratum "extends": components and pages written with Django's template inheritance --------------------------
# No reference model is needed (or used) here: the oracle of C07 is differential (scheduled result = serial result).
# The library keeps a per-render flag (`_djc_is_component_nested`) on the component's compiled Template object, which
# is shared between threads through the template cache; its value depends on whether the component is rendered inside
# a {% block %} of an inheriting page or not - so pages of both kinds over the same classes are raced.
X_TEMPLATES = {
    "xb0.html": "<main>{% block a %}A0{% endblock %}|{% block b %}B0{% endblock %}</main>",
    "xb1.html": '{% extends "xb0.html" %}{% block a %}A1[{{ block.super }}]{% endblock %}',
}
X_COMPONENTS = {
    "XC": '{% extends "xb0.html" %}{% block a %}{{ v }}-{% slot "s" default %}SD{% endslot %}{% endblock %}',
    "XD": '{% extends "xb1.html" %}{% block b %}{{ v }}+{% slot "s" default %}SD{% endslot %}{% endblock %}',
    "XP": 'p:{{ v }}[{% slot "s" default / %}]',
}
X_WRAPPERS = [
    "%s",
    '{%% extends "xb0.html" %%}{%% block a %%}%s{%% endblock %%}',
    '{%% extends "xb1.html" %%}{%% block b %%}%s{%% endblock %%}',
    '{%% extends "xb0.html" %%}{%% block b %%}%s{%% endblock %%}',
]


def draw_xpage(ch):
    names = sorted(X_COMPONENTS)

    def comp(depth):
        name = names[ch.draw(len(names), "xcomp")]
        v = ["pa", "pb"][ch.draw(2, "xv")]
        fk = ch.weighted([3, 2, 3 if depth < 2 else 0], "xfill")
        if fk == 0:
            return '{%% component "%s" v=%s / %%}' % (name, v)
        body = "F" if fk == 1 else comp(depth + 1)
        return '{%% component "%s" v=%s %%}{%% fill "s" %%}%s{%% endfill %%}{%% endcomponent %%}' % (name, v, body)

    body = "".join(comp(0) for _ in range(1 + ch.draw(2, "xitems")))
    return X_WRAPPERS[ch.weighted([3, 2, 2, 2], "xwrap")] % body

# ---- stratum "view": requests served concurrently by ONE view function made with Component.as_view() ---------------
# (the documented way to put a component into urls.py: every request renders through the SAME Component instance)
V_COMPONENTS = {
    "VB": '<em>{{ label }}|{% slot "l" default %}nolabel{% endslot %}</em>',
    "VP": ('<div><b>{{ myid }}</b>{{ name }}/{{ same }}/{{ inj }}'
           '{% provide "k" who=name %}{% component "VB" label=name %}{% fill "l" %}{{ name }}{% endfill %}{% endcomponent %}'
           '{% endprovide %}{% slot "t" default %}T0{% endslot %}</div>'),
}
V_ROOT_ID_RE = re.compile(r"<div data-djc-id-([0-9A-Za-z]{6})")
V_ECHO_ID_RE = re.compile(r"<b[^>]*>([0-9A-Za-z]{6})</b>")

ID_RE = re.compile(r"\b[0-9A-Za-z]{6}\b")


def default_params(tier):
    p = progmod.default_params(tier, forbid=["only", "negative", "dynamic"], force=[])
    p["size_hi"] = 14 if tier == "quick" else 24
    p["max_comps"] = 3
    p["max_tasks"] = 3
    p["filled_weight"] = 4   # is_filled echoes make per-instance state that leaks between threads observable
    # (drawn uniformly from this list: the five original strata twice each, template inheritance once)
    p["strata"] = ["clean", "provide", "lru", "media", "mixed"] * 2 + ["extends", "view"]
    return p


# ------------------------------------------------------------------------------------------------ task specs
def draw_tasks(ch, params, force_stratum=None):
    if force_stratum is None:
        stratum = params["strata"][ch.draw(len(params["strata"]), "stratum")]
    else:   # systematic sweep: the set number decides the stratum (recorded as a draw all the same)
        stratum = params["strata"][ch.draw_or(force_stratum % len(params["strata"]), len(params["strata"]), "stratum")]
    mode = ["django", "isolated"][ch.draw(2, "mode")]
    n = 2 + (1 if params["max_tasks"] >= 3 and ch.chance(1, 3, "three") else 0)
    tasks = []
    gp = dict(params)
    if stratum == "clean":
        gp["forbid"] = list(set(params["forbid"]) | {"provide", "inject_default"})
    elif stratum == "provide":
        gp["force"] = ["provide", "inject_default", "faults"]
        gp["provide_bias"] = 4
    progs = []

    # half of the page-render task sets use element-mode programs: HTML elements, Component.id echoed into an attribute,
    # so that the hand-over of root attributes between a parent and its root-level children is part of what is compared
    with_elems = stratum in ("clean", "provide", "mixed") and ch.chance(1, 2, "elems")

    def new_prog(assets=False, library_of=None):
        g = dict(gp, assets=assets, elems=assets or with_elems, page_wrap=assets)
        if library_of is not None:
            # a different page over the SAME component classes (class-level shared state is then really shared)
            base = progs[library_of]
            raw = progmod.generate(ch, dict(g, reuse_comps=base["raw_comps"]))
            p = R.rename_program(raw, base["pfx"])
            p["shares_classes_with"] = library_of
        else:
            raw = progmod.generate(ch, g)
            p = R.rename_program(raw, f"q{len(progs)}")
        p["raw_comps"] = raw["comps"]
        p["pfx"] = p.get("pfx") or (progs[library_of]["pfx"] if library_of is not None else f"q{len(progs)}")
        p["mode"] = mode
        progs.append(p)
        return len(progs) - 1

    if stratum in ("clean", "provide", "mixed"):
        shared = ch.chance(1, 3, "shared_template")
        shared_lib = (not shared) and ch.chance(1, 2, "shared_library")
        first = new_prog()
        for k in range(n):
            kind = "render"
            pi = first if (shared or k == 0) else new_prog(library_of=first if shared_lib else None)
            t = {"kind": kind, "prog": pi, "shared_template": shared, "fault_site": None, "exc": 0}
            if stratum in ("mixed", "provide") and k == n - 1 and ch.chance(1, 2, "failing_task"):
                t["fault_at"] = 1 + ch.draw(6, "fault_at")
                t["exc"] = ch.draw(len(world.exc_kinds()), "exc")
            tasks.append(t)
        if stratum == "mixed" and ch.chance(1, 2, "deps_task"):
            tasks[0] = {"kind": "render_deps", "prog": new_prog(assets=True), "shared_template": False}
    elif stratum == "extends":
        shared = ch.chance(1, 4, "shared_template")
        first = draw_xpage(ch)
        for k in range(n):
            tasks.append({"kind": "xrender", "page": first if (shared or k == 0) else draw_xpage(ch), "xshared": shared})
        return {"stratum": stratum, "mode": mode, "tasks": tasks, "progs": progs}
    elif stratum == "view":
        for k in range(n):
            t = {"kind": "view", "name": f"n{k}", "slot": ch.draw(3, "vslot"), "via": ch.weighted([4, 1], "vvia")}
            if k == n - 1 and ch.chance(1, 4, "failing_task"):
                t["fault_at"] = 1 + ch.draw(3, "fault_at")
                t["exc"] = ch.draw(len(world.exc_kinds()), "exc")
            tasks.append(t)
        return {"stratum": stratum, "mode": mode, "tasks": tasks, "progs": progs}
    elif stratum == "lru":
        size = [1, 2, 3][ch.draw(3, "lru_size")]
        n_src = 2 + ch.draw(3, "n_sources")
        for k in range(n):
            seq = [ch.draw(n_src, "src") for _ in range(2 + ch.draw(4, "seq_len"))]
            tasks.append({"kind": "tcache", "seq": seq})
        return {"stratum": stratum, "mode": mode, "tasks": tasks, "progs": progs, "lru_size": size}
    elif stratum == "media":
        hier = {"n": 2 + ch.draw(3, "n_classes"), "bases": [], "files": [], "extend": [], "file_assets": []}
        for i in range(hier["n"]):
            hier["bases"].append(ch.draw(i + 1, "base") - 1)  # -1 = Component
            hier["files"].append(ch.draw(4, "files"))
            hier["extend"].append(ch.draw(3, "extend") != 2)
            hier["file_assets"].append(ch.weighted([2, 2, 2], "file_assets"))  # inline / js_file / template_file + css_file
        for k in range(n):
            order = []
            pool = list(range(hier["n"]))
            while pool:
                order.append(pool.pop(ch.draw(len(pool), "access")))
            tasks.append({"kind": "media", "order": order, "attr": ch.draw(4, "attr")})
        return {"stratum": stratum, "mode": mode, "tasks": tasks, "progs": progs, "hier": hier}
    return {"stratum": stratum, "mode": mode, "tasks": tasks, "progs": progs}


# ------------------------------------------------------------------------------------------------ execution
def lib_frame(exc):
    frames = [f for f in traceback.extract_tb(exc.__traceback__) if "django_components" in f.filename]
    if not frames:
        return "-"
    f = frames[-1]
    return f"{f.filename.split('django_components/')[-1]}:{f.name}"


def mask_ids(s, w):
    return ID_RE.sub(lambda m: "ID" if m.group(0) in w.used_ids else m.group(0), s)


def canon_ids(s, w):
    """Render ids replaced by their rank of first appearance in this output: the ids themselves differ from run to run,
    WHICH elements carry the id of which instance (and what Component.id echoed) must not."""
    seen = {}

    def sub(m):
        tok = m.group(0)
        if tok not in w.used_ids:
            return tok
        return "#%d" % seen.setdefault(tok, len(seen))
    return ID_RE.sub(sub, s)


class Setup:
    """Builds everything the tasks need (classes, shared Template objects) before any task runs."""

    def __init__(self, spec, knobs):
        from django.template import Template

        self.spec = spec
        self.w = R.start_world(knobs, spec["mode"])
        if spec["stratum"] == "lru":
            world.apply_config(mode=spec["mode"], template_cache_size=spec["lru_size"], cache_variant=knobs["cache_variant"])
        self.classes = []
        for p in spec["progs"]:
            if p.get("shares_classes_with") is not None:
                self.classes.append(self.classes[p["shares_classes_with"]])
            else:
                self.classes.append(emit.build_classes(p))
        self.shared_templates = {}
        for t in spec["tasks"]:
            if t.get("shared_template") and t["prog"] not in self.shared_templates:
                self.shared_templates[t["prog"]] = Template(emit.page_source(spec["progs"][t["prog"]]))
        self.media_classes = None
        self.tmpdir = None
        if spec["stratum"] == "extends":
            self.build_extends(spec)
        if spec["stratum"] == "media":
            self.media_classes = self.build_hierarchy(spec["hier"])
        if spec["stratum"] == "view":
            self.build_view()

    def build_view(self):
        from django_components import Component, registry

        def vb_gcd(self, label=None):
            world.fault_point("gcd:VB")
            return {"label": label, "who": emit.fmt_injected(self.inject("k", emit.DEFAULT_SENTINEL))}

        def vp_gcd(self, name=None):
            world.fault_point("gcd:VP")
            # what a component commonly reads in get_context_data: its own input, its render id, injected data
            return {"name": name, "same": self.input.kwargs.get("name") == name, "myid": self.id,
                    "inj": emit.fmt_injected(self.inject("k", emit.DEFAULT_SENTINEL))}

        def vp_get(self, request, *args, **kwargs):
            slot = request.GET.get("slot")
            slots = {"t": "S-" + request.GET["name"]} if slot == "1" else (
                {"t": (lambda ctx, data, ref: "F-" + request.GET["name"])} if slot == "2" else None)
            return self.render_to_response(kwargs={"name": request.GET["name"]}, slots=slots)

        registry.register("VB", type("VB", (Component,), {"__module__": "sim.generated", "template": V_COMPONENTS["VB"],
                                                          "get_context_data": vb_gcd}))
        vp = type("VP", (Component,), {"__module__": "sim.generated", "template": V_COMPONENTS["VP"],
                                        "get_context_data": vp_gcd, "get": vp_get})
        registry.register("VP", vp)
        self.view_cls = vp
        self.view = vp.as_view()          # ONE view function = one Component instance for all requests

    def build_extends(self, spec):
        from django.template import Template, engines

        from django_components import Component, registry

        engines["django"].engine.template_loaders[0].templates_dict.update(X_TEMPLATES)
        for name, src in X_COMPONENTS.items():
            def gcd(self, v=None, _name=name):
                world.fault_point("gcd:" + _name)
                return {"v": v}

            registry.register(name, type(name, (Component,), {"__module__": "sim.generated", "template": src,
                                                               "get_context_data": gcd}))
        self.xshared = None
        if spec["tasks"][0].get("xshared"):
            self.xshared = Template(spec["tasks"][0]["page"])

    def build_hierarchy(self, h):
        from django_components import Component

        import tempfile

        from django.conf import settings

        FILES = [([], []), (["a.js"], ["x.css"]), (["shared.js", "b.js"], []), (["shared.js"], ["x.css", "y.css"])]
        out = []
        self.tmpdir = tempfile.mkdtemp(prefix="djc-c07-")
        comps = dict(settings.COMPONENTS)
        comps["dirs"] = [self.tmpdir]
        settings.COMPONENTS = comps
        for i in range(h["n"]):
            base = Component if h["bases"][i] < 0 else out[h["bases"][i]]
            js, css = FILES[h["files"][i]]
            fa = h.get("file_assets", [0] * h["n"])[i]
            attrs = {"__module__": "sim.generated"}
            if fa == 2:
                attrs["template_file"] = f"m{i}.html"
                attrs["css_file"] = f"m{i}.css"
                with open(os.path.join(self.tmpdir, f"m{i}.html"), "w") as f:
                    f.write(f"file-template-{i}")
                with open(os.path.join(self.tmpdir, f"m{i}.css"), "w") as f:
                    f.write(f".m{i} {{}}")
            else:
                attrs["template"] = f"m{i}"
            if fa == 1:
                attrs["js_file"] = f"m{i}.js"
                with open(os.path.join(self.tmpdir, f"m{i}.js"), "w") as f:
                    f.write(f"console.log('file {i}');")
            else:
                attrs["js"] = f"console.log({i});" if i % 2 else None
            if js or css or not h["extend"][i]:
                m = {}
                if js:
                    m["js"] = list(js)
                if css:
                    m["css"] = list(css)
                if not h["extend"][i]:
                    m["extend"] = False
                attrs["Media"] = type("Media", (), m)
            out.append(type(f"Hier{i}", (base,), attrs))
        return out

    def task_fn(self, k):
        t = self.spec["tasks"][k]
        w = self.w
        kind = t["kind"]

        def wrap(fn):
            def run():
                ts = world.TaskState()
                if t.get("fault_at"):
                    ts.fault_at = t["fault_at"]
                    ts.fault_exc_kind = t["exc"]
                w.set_task(ts)
                try:
                    return ["ok", fn()]
                except Exception as e:
                    injected = ts.fired is not None and ts.fired[2] is e
                    return ["err", type(e).__name__, mask_ids(str(e), w)[:300], lib_frame(e), injected]
            return run

        if kind == "render":
            from django.template import Context, Template

            prog = self.spec["progs"][t["prog"]]

            def fn():
                tpl = self.shared_templates.get(t["prog"]) if t.get("shared_template") else None
                if tpl is None:
                    tpl = Template(emit.page_source(prog))
                # comments (bookkeeping markers) dropped, render ids canonicalised - the id ATTRIBUTES stay
                return canon_ids(R.RENDERED_RE.sub("", str(tpl.render(Context(dict(prog["ctx"]))))), w)
            return wrap(fn)
        if kind == "xrender":
            from django.template import Context, Template

            def fn():
                tpl = self.xshared if t.get("xshared") else Template(t["page"])
                return R.normalise(str(tpl.render(Context({"pa": "PA", "pb": "PB"}))))
            return wrap(fn)
        if kind == "view":
            from django.test import RequestFactory

            def fn():
                if t["via"] == 1:
                    # the same class rendered through the Python entry while the others go through the shared view
                    html = str(self.view_cls.render(kwargs={"name": t["name"]}))
                else:
                    resp = self.view(RequestFactory().get("/", {"name": t["name"], "slot": str(t["slot"])}))
                    html = resp.content.decode()
                root = V_ROOT_ID_RE.search(html)
                echo = V_ECHO_ID_RE.search(html)
                id_ok = bool(root and echo and root.group(1) == echo.group(1))
                body = html[html.index("<div"): html.index("</div>") + 6] if "<div" in html else html
                return [mask_ids(R.normalise(body), w), "Component.id equals the id on the root element: %s" % id_ok]
            return wrap(fn)
        if kind == "render_deps":
            from django.template import Context, Template

            from django_components import render_dependencies

            prog = self.spec["progs"][t["prog"]]

            def fn():
                html = Template(emit.page_source(prog)).render(Context(dict(prog["ctx"])))
                return R.DJC_ID_RE.sub("", R.DATA_O_RE.sub("", render_dependencies(str(html))))
            return wrap(fn)
        if kind == "tcache":
            from django.template import Context

            from django_components import cached_template

            def fn():
                out = []
                for s in t["seq"]:
                    tpl = cached_template("src%d {{ v }}{%% if v %%}y{%% endif %%}" % s)
                    out.append(tpl.render(Context({"v": s})))
                return out
            return wrap(fn)
        if kind == "media":
            def fn():
                out = []
                for ci in t["order"]:
                    cls = self.media_classes[ci]
                    if t["attr"] == 0:
                        out.append([ci, str(cls.media)])
                    elif t["attr"] == 1:
                        out.append([ci, repr(cls.js), repr(cls.template)])
                    elif t["attr"] == 3:
                        out.append([ci, R.normalise(str(cls.render())), repr(cls.css)])
                    else:
                        out.append([ci, str(cls().media), repr(cls.css)])
                return out
            return wrap(fn)
        raise AssertionError(kind)

    def cleanup(self):
        if self.tmpdir:
            import shutil

            shutil.rmtree(self.tmpdir, ignore_errors=True)

    def end_state(self):
        import django_components.cache as djc_cache
        import django_components.component_media as _cm

        media_cache = getattr(_cm, "media_cache", None) or {}   # observation only; absent after a refactoring -> not observed

        st = {"registries": world.registries_nonempty()}
        lru = djc_cache.template_cache
        st["lru"] = world.lru_wellformed(lru) if lru is not None else None
        st["lru_len"] = len(lru.cache) if (lru is not None and hasattr(lru, "cache")) else 0
        mc = djc_cache.component_media_cache
        keys = []
        if mc is not None:
            keys = sorted(getattr(mc, "_cache", None) or getattr(mc, "_st", {}) or [])
        st["media_cache_keys"] = [str(k) for k in keys]
        if self.media_classes:
            st["media"] = [str(media_cache.get(c)) for c in self.media_classes]
        return st


def run_tasks(spec, knobs, plan):
    import django_components

    setup = Setup(spec, knobs)
    lib_dir = os.path.dirname(django_components.__file__)
    s = schedmod.Scheduler(lib_dir, plan)
    schedmod.install_lock_seam(s)
    fns = [setup.task_fn(k) for k in range(len(spec["tasks"]))]
    results = s.run(fns)
    return setup, s, results


# ------------------------------------------------------------------------------------------------ systematic sweep
def sweep_blocks(spec, solo, set_id=None):
    """The bounded pre-emption space of one two-task set, per focus group g of shared-state lines and per start order
    (a, b):  depth 1 = a is stopped before its c1-th g-line, b runs to its end, a finishes          (H_a[g] schedules)
             depth 2 = ... b is stopped before its k-th g-line, a finishes, then b                  (H_a[g] * H_b[g])."""
    foci = []
    for f in FOCI_BY_STRATUM[spec["stratum"]]:
        if f != "all" and solo["groups"].get(f, 0) > 0:
            foci.append(f)      # (repeated entries = weights: the stratum's own group gets more of the sets)
    d1, d2 = [], []
    # one focus group per set (sets cycle through the groups of their stratum), so the per-set budget goes into ONE space
    for f in (sorted(set(foci)) if set_id is None else [foci[set_id % len(foci)]] if foci else []):
        for oi, (a, b) in enumerate(((0, 1), (1, 0))):
            ha, hb = solo["task_groups"][a].get(f, 0), solo["task_groups"][b].get(f, 0)
            if ha > 0:
                d1.append((f, oi, 1, ha, 1))
                if hb > 0:
                    d2.append((f, oi, 2, ha, hb))
    return foci, d1, d2


def sweep_pick(j, K, d1, d2):
    """Schedule number j of K for this set: all of depth 1 first, then the depth-2 blocks (smallest first) as far as the
    budget reaches; a block that does not fit is sampled at an even stride.  Returns (block, offset) or None."""
    def locate(blocks, t):
        for b in blocks:
            sz = b[3] * b[4]
            if t < sz:
                return b, t
            t -= sz
        return None

    t1 = sum(b[3] for b in d1)
    if t1 == 0:
        return None
    if t1 >= K:
        # depth 1 alone exceeds the budget: every block (start order) gets an equal share, spent on its first offsets -
        # which are the stops at distinct lines (sites first, see sweep_plan)
        per = max(1, K // len(d1))
        bi, off = j // per, j % per
        if bi >= len(d1) or off >= d1[bi][3]:
            return None
        return d1[bi], off
    if j < t1:
        return locate(d1, j)
    j2, left = j - t1, K - t1
    for b in sorted(d2, key=lambda b: (b[3] * b[4], b[0], b[1])):
        sz = b[3] * b[4]
        if sz <= left:
            if j2 < sz:
                return b, j2
            j2 -= sz
            left -= sz
        else:
            if j2 < left:
                return b, (j2 * sz) // left
            return None
    return None


def sweep_plan(ch, j, spec, solo, K, set_id=None):
    foci, d1, d2 = sweep_blocks(spec, solo, set_id)
    forced = None
    if j is not None:
        forced = sweep_pick(j, K, d1, d2)
        if forced is None:
            return None, foci
    if not foci:
        return None, foci
    if forced is not None:
        (f, oi, depth, ha, hb), off = forced
        fi_ = foci.index(f)
        v = [fi_, depth - 1, oi, off // hb, off % hb]
        if depth == 1:
            # depth 1 is enumerated SITES FIRST: the stops before the first execution of each distinct file:line of the
            # group come before the stops at repeated executions (a one-line window is a property of the line), so a
            # budget smaller than the space still covers every line once
            a_ = ((0, 1), (1, 0))[oi][0]
            firsts = [c for c in solo["task_first_sites"][a_].get(f, []) if 1 <= c <= ha]
            lasts = [c for c in solo.get("task_last_sites", [{}, {}])[a_].get(f, []) if 1 <= c <= ha and c not in set(firsts)]
            head = firsts + lasts          # ... then before the LAST execution of each line, then everything else
            rest = [c for c in range(1, ha + 1) if c not in set(head)]
            v[3] = (head + rest)[off] - 1
    else:
        v = [0, 0, 0, 0, 0]
    focus = foci[ch.draw_or(v[0], len(foci), "sw_focus")]
    depth = 1 + ch.draw_or(v[1], 2, "sw_depth")
    a, b = ((0, 1), (1, 0))[ch.draw_or(v[2], 2, "sw_order")]
    ha, hb = solo["task_groups"][a].get(focus, 0), solo["task_groups"][b].get(focus, 0)
    c1 = 1 + ch.draw_or(v[3], max(1, ha), "sw_c1")
    changes = [c1]
    if depth == 2:
        changes.append(c1 + 1 + ch.draw_or(v[4], max(1, hb), "sw_c2"))
    return {"kind": "pct", "by": "shared", "order": [a, b], "changes": changes, "focus": focus,
            "name": f"sweep-d{depth}"}, foci


def run(ch, params, decoded=False):
    sweep = params.get("sweep")
    sweep_j = sweep_set = None
    if sweep and ch.prefix is None and ch.index is not None:
        # systematic part: run index -> (task set, schedule number); the set's draws are adopted into this run's list
        from sim.choices import Choices, derive_seed

        K = sweep["per_set"]
        sweep_j = ch.index % K
        sweep_set = ch.index // K
        ich = Choices(seed=derive_seed(ch.base_seed, "C07-sweep-set", ch.index // K))
        knobs = R.draw_knobs(ich)
        spec = draw_tasks(ich, params, force_stratum=sweep_set)
        ch.adopt(ich.draws)
        sweep_set //= len(params["strata"])   # what is left of the set number picks the focus group
    else:
        knobs = R.draw_knobs(ch)
        spec = draw_tasks(ch, params)
    n = len(spec["tasks"])

    # ---- solo phase: grandchild forked from the pristine image ------------------------------------
    r, wfd = os.pipe()
    pid = os.fork()
    if pid == 0:
        os.close(r)
        try:
            setup, s, results = run_tasks(spec, knobs, {"kind": "serial", "order": list(range(n))})
            out = {"results": results, "steps": [t.steps for t in s.tasks], "shared": [t.shared_steps for t in s.tasks],
                   "groups": dict(zip(schedmod.GROUPS, s.group_counts)), "end": setup.end_state(),
                   "task_groups": [dict(zip(schedmod.GROUPS, t.group_counts)) for t in s.tasks],
                   "task_first_sites": [dict(zip(schedmod.GROUPS, t.first_sites)) for t in s.tasks],
                   "task_last_sites": [dict(zip(schedmod.GROUPS, [sorted(d.values()) for d in t.last_sites])) for t in s.tasks]}
            setup.cleanup()
        except BaseException as e:
            out = {"harness_error": repr(e), "tb": traceback.format_exc()[-2000:]}
        os.write(wfd, json.dumps(out, default=repr).encode())
        os._exit(0)
    os.close(wfd)
    data = b""
    while True:
        b = os.read(r, 1 << 16)
        if not b:
            break
        data += b
    os.close(r)
    os.waitpid(pid, 0)
    solo = json.loads(data) if data else {"harness_error": "solo child died"}
    if "harness_error" in solo:
        raise RuntimeError("solo phase: " + solo["harness_error"] + "\n" + solo.get("tb", ""))

    # ---- scheduled phase -----------------------------------------------------------------------------
    if sweep:
        plan, foci = sweep_plan(ch, sweep_j, spec, solo, sweep["per_set"], sweep_set)
        if plan is None:   # this set's bounded space is smaller than the per-set budget: nothing left to run
            return {"violations": [], "key": None, "nontrivial": False, "digest": "skipped",
                    "stats": {"sweep:slot_beyond_space": 1, "stratum:" + spec["stratum"]: 1}}
    else:
        foci = [f for f in FOCI_BY_STRATUM[spec["stratum"]] if f == "all" or solo["groups"].get(f, 0) > 0]
        plan = schedmod.draw_plan(ch, n, sum(solo["steps"]), sum(solo["shared"]), foci=foci, focus_horizons=solo["groups"])
    setup, s, results = run_tasks(spec, knobs, plan)
    results = json.loads(json.dumps(results, default=repr))
    end = json.loads(json.dumps(setup.end_state(), default=repr))
    setup.cleanup()
    violations = []
    stats = {"stratum:" + spec["stratum"]: 1, "strategy:" + plan["name"]: 1, "fault:PREEMPT": len(s.switches),
             "focus:" + plan.get("focus", "all"): 1,
             "sim_steps": s.step, "shared_state_steps": s.shared_step, "mode=" + spec["mode"]: 1,
             "lock_contention": s.contention}
    if sweep:
        stats["sweep:" + plan["name"] + ":" + plan["focus"]] = 1
        if sweep_j == 0:
            _f, d1, d2 = sweep_blocks(spec, solo, sweep_set)
            K = sweep["per_set"]
            t1 = sum(b[3] for b in d1)
            stats["sweep:sets"] = 1
            stats["sweep:distinct_lines_of_the_focus_group_in_both_tasks"] = sum(
                len(solo["task_first_sites"][k_].get(plan["focus"], [])) for k_ in (0, 1))
            stats["sweep:sets_every_line_of_the_group_preempted_once_per_order"] = int(all(
                len(solo["task_first_sites"][((0, 1), (1, 0))[b[1]][0]].get(plan["focus"], [])) <= max(1, K // max(1, len(d1)))
                for b in d1) or t1 <= K)
            stats["sweep:sets_depth1_space_enumerated_completely:" + plan["focus"]] = int(t1 <= K)
            left = K - t1
            for b in sorted(d2, key=lambda b: (b[3] * b[4], b[0], b[1])):
                left -= b[3] * b[4]
                if left >= 0:
                    stats["sweep:depth2_blocks_enumerated_completely:" + b[0]] = stats.get(
                        "sweep:depth2_blocks_enumerated_completely:" + b[0], 0) + 1
                else:
                    stats["sweep:depth2_blocks_sampled_or_skipped:" + b[0]] = stats.get(
                        "sweep:depth2_blocks_sampled_or_skipped:" + b[0], 0) + 1
    if s.error:
        violations.append({"class": "DEADLOCK", "fingerprint": ["deadlock"], "detail": {"what": s.error}})
    last_shared = s.shared_trace[-1][1] if s.shared_trace else "-"
    for k, (got, want) in enumerate(zip(results, solo["results"])):
        if violations:
            break
        if got[0] == "harness":
            raise RuntimeError("task wrapper failed: " + str(got))
        if got[:3] != want[:3] if got[0] == "err" else got != want:
            if got[0] == "err":
                cls = "FOREIGN-EXCEPTION"
                fp = [spec["stratum"], got[1], got[3]]
                what = f"task {k} raised {got[1]}: {got[2]} (innermost library frame {got[3]}); alone it returns {str(want)[:200]}"
            elif want[0] == "err":
                cls = "MISSING-EXCEPTION"
                fp = [spec["stratum"], want[1]]
                what = f"task {k} returned although alone it raises {want[1]}"
            else:
                cls = "OUTPUT"
                fp = [spec["stratum"], "output"]
                what = f"task {k} returned {str(got[1])[:300]!r}; alone it returns {str(want[1])[:300]!r}"
            violations.append({"class": cls, "fingerprint": fp, "detail": {"task": k, "what": what}})
    if not violations:
        if end["registries"] != solo["end"]["registries"]:
            violations.append({"class": "RESIDUE", "fingerprint": [spec["stratum"], sorted(end["registries"])],
                               "detail": {"residue": {k_: len(v) for k_, v in end["registries"].items()}}})
        elif end["lru"] is not None:
            violations.append({"class": "LRU-CORRUPT", "fingerprint": [spec["stratum"], "lru"], "detail": {"what": end["lru"]}})
        elif end["media_cache_keys"] != solo["end"]["media_cache_keys"]:
            violations.append({"class": "MEDIA-CACHE", "fingerprint": [spec["stratum"], "media-cache-keys"],
                               "detail": {"scheduled": end["media_cache_keys"], "solo": solo["end"]["media_cache_keys"]}})
        elif end.get("media") != solo["end"].get("media"):
            violations.append({"class": "MEDIA-MEMO", "fingerprint": [spec["stratum"], "media-memo"],
                               "detail": {"scheduled": end.get("media"), "solo": solo["end"].get("media")}})
    for v in violations:
        v["detail"]["last_shared_access_before_end"] = last_shared
        v["detail"]["switches"] = len(s.switches)
    proj = hashlib.blake2b(json.dumps(s.shared_trace).encode(), digest_size=8).hexdigest()
    setup.w.log("c07", results, [list(x) for x in s.switches[:200]], end)
    out = {
        "violations": violations,
        "key": spec["stratum"] + ":" + proj,
        "nontrivial": len(s.switches) > 0 and len({x[0] for x in s.shared_trace}) > 1,
        "stats": stats,
        "digest": setup.w.digest(),
    }
    if decoded or violations:
        out["decoded"] = {
            "knobs": knobs, "stratum": spec["stratum"], "mode": spec["mode"],
            "tasks": [{k_: v for k_, v in t.items()} for t in spec["tasks"]],
            "programs": [dict(R.decoded_program(p), shares_classes_with=p.get("shares_classes_with")) for p in spec["progs"]],
            "extra": {k_: spec[k_] for k_ in ("lru_size", "hier") if k_ in spec},
            "plan": plan, "solo_steps": solo["steps"], "solo_shared_steps": solo["shared"],
            "switches": [list(x) for x in s.switches[:60]], "results": results, "solo_results": solo["results"],
        }
    return out
