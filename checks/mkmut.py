"""Create a mutant patch: python -m checks.mkmut NAME REL_FILE OLD NEW   (OLD must occur exactly once in /repo/REL_FILE)."""
import difflib
import os
import sys

name, rel, old, new = sys.argv[1:5]
src = open(os.path.join("/repo", rel)).read()
if src.count(old) != 1:
    sys.exit(f"OLD occurs {src.count(old)} times in {rel}")
mut = src.replace(old, new)
diff = "".join(difflib.unified_diff(src.splitlines(True), mut.splitlines(True), "a/" + rel, "b/" + rel))
out = os.path.join(os.path.dirname(os.path.dirname(os.path.abspath(__file__))), "mutants", name + ".patch")
mode = "a" if os.environ.get("APPEND") else "w"
open(out, mode).write(diff)
print("wrote", out)
