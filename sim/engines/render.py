"""render-sim: generated component programs executed by the real library and by the reference renderer."""
import hashlib
import json
import re
import sys

from sim import world
from sim.model import emit, prog as progmod, ref

# every HTML comment: the generated programs contain none, so whatever comment appears is the library's bookkeeping
# marker (its text is an internal format)
RENDERED_RE = re.compile(r"<!--.*?-->", re.S)
DJC_ID_RE = re.compile(r'\sdata-djc-id-[0-9a-zA-Z]{6}(?:="")?')
DATA_O_RE = re.compile(r'\sdata-o="[^"]*"')


def normalise(html):
    html = RENDERED_RE.sub("", html)
    html = DJC_ID_RE.sub("", html)
    html = DATA_O_RE.sub("", html)
    return html


class StepBudget:
    """Deterministic hang detector: counts call events in library frames (DESIGN.md 3.5)."""

    def __init__(self, cap):
        self.cap = cap
        self.n = 0
        self.prev = None

    def _trace(self, frame, event, arg):
        if event == "call":
            fn = frame.f_code.co_filename
            if "django_components" in fn:
                self.n += 1
                if self.n > self.cap:
                    raise world.StepBudgetExceeded(f"more than {self.cap} library calls")
        return None

    def __enter__(self):
        self.prev = sys.gettrace()
        sys.settrace(self._trace)
        return self

    def __exit__(self, *a):
        sys.settrace(self.prev)
        LAST_STEPS[0] = self.n
        return False


LAST_STEPS = [0]


def real_render_page(prog, classes, w, budget=None):
    """Template(page).render(Context(ctx)) -> ("ok", html) | ("err", type name, message, exc)."""
    from django.template import Context, Template

    src = emit.page_source(prog)
    try:
        cm = StepBudget(budget) if budget else None
        if cm:
            cm.__enter__()
        try:
            t = Template(src)
            html = t.render(Context(dict(prog["ctx"])))
        finally:
            if cm:
                cm.__exit__()
                LAST_STEPS[0] = cm.n
        return ("ok", str(html))
    except world.StepBudgetExceeded as e:
        return ("hang", str(e))
    except RecursionError as e:
        return ("hang", "RecursionError")
    except Exception as e:
        return ("err", type(e).__name__, str(e), e)


# ---------------------------------------------------------------------------------------------
# shared session helpers
# ---------------------------------------------------------------------------------------------
KNOB_SIZES = [128, 0, 1, 2, None]


# Which ComponentRegistry the generated components live in: the default one, or a private registry (own Library, put
# among the engine's builtins) whose RegistrySettings carry the run's context_behavior - in "private-opposite" the
# project-wide COMPONENTS.context_behavior is the OTHER mode, so every place that consults the global setting instead
# of the registry's shows.  Derived from bits of the id seed (no draw of its own: the draw layout of recorded replay
# files stays valid; id seed 0 = the simplest choice = default registry).
REGISTRY_VARIANTS = ["default"] * 5 + ["private", "private-opposite", "private-opposite"]


def draw_knobs(ch, cache_variants=("default-locmem",), registries=False):
    """Environment knobs of a run (swarm): id stream, template cache size, media-cache backend, registry variant."""
    k = {
        "id_seed": ch.fork_seed("id_seed"),
        "template_cache_size": KNOB_SIZES[ch.weighted([4, 1, 2, 1, 1], "tcs")],
        "cache_variant": cache_variants[ch.draw(len(cache_variants), "cache_variant")],
    }
    if registries:
        k["registry"] = REGISTRY_VARIANTS[(k["id_seed"] >> 7) % len(REGISTRY_VARIANTS)]
    return k


def other_mode(mode):
    return "isolated" if mode == "django" else "django"


def start_world(knobs, mode, unique_ids=False):
    w = world.World(id_seed=knobs["id_seed"], unique_ids=unique_ids)
    world.install(w)
    rv = knobs.get("registry", "default")
    world.apply_config(mode=other_mode(mode) if rv == "private-opposite" else mode,
                       template_cache_size=knobs["template_cache_size"], cache_variant=knobs["cache_variant"])
    if rv != "default":
        world.use_private_registry(mode)
    return w


def rename_program(prog, pfx):
    """Give the components of a program a private name prefix so several programs can live in one registry."""
    mapping = {c["name"]: pfx + c["name"] for c in prog["comps"]}
    s = json.dumps(prog)
    # component names only occur as whole JSON strings or as data-variable prefixes "cN_"
    for old, new in sorted(mapping.items(), key=lambda kv: -len(kv[0])):
        s = re.sub(r'(?<![A-Za-z0-9_])%s(?=[_"])' % re.escape(old), new, s)
    return json.loads(s)


def all_dynamic(prog):
    """Variant: every component tag goes through the dynamic component."""
    p = json.loads(json.dumps(prog))

    def walk(nodes):
        for n in nodes:
            k = n[0]
            if k == "comp":
                n[6] = True
                walk(n[5])
            elif k == "if":
                walk(n[2]); walk(n[3])
            elif k in ("for", "with", "elem", "provide", "include"):
                walk(n[3])
            elif k == "fill":
                walk(n[4])
            elif k == "slot":
                walk(n[5])
    walk(p["page"])
    for c in p["comps"]:
        walk(c["tmpl"])
    return p


def compare(real, expected):
    """None if the real result refines the model's, else (class, fingerprint-part, description)."""
    if real[0] == "hang":
        return ("HANG", "hang", real[1])
    if expected[0] == "ok":
        if real[0] != "ok":
            return ("EXCEPTION", real[1], f"raised {real[1]}: {real[2][:300]!r}, model renders {expected[1][:200]!r}")
        got = normalise(real[1])
        if got != expected[1]:
            return ("OUTPUT", "output", f"real {got[:400]!r} != model {expected[1][:400]!r}")
        return None
    # model predicts an error
    if real[0] == "ok":
        return ("MISSING-ERROR", expected[1], f"rendered {normalise(real[1])[:200]!r}, model raises {expected[1]} ({expected[2]})")
    if real[1] != expected[1]:
        return ("EXCEPTION-TYPE", real[1], f"raised {real[1]}: {real[2][:300]!r}, model raises {expected[1]} ({expected[2]})")
    return None


def program_features(prog, model):
    """Cheap structural probes used for the non-triviality rule."""
    pr = model.probes
    return {
        "fill_crosses_boundary": pr.get("fill_crosses_boundary", 0),
        "slot_default_content": pr.get("slot_default_content", 0),
        "slot_filled": pr.get("slot_filled", 0),
        "instances": len(model.insts),
    }


def skeleton_key(prog, extra=()):
    sk = progmod.program_skeleton(prog)
    return hashlib.blake2b(json.dumps([sk, list(extra)], sort_keys=True).encode(), digest_size=8).hexdigest()


def decoded_program(prog):
    return {
        "mode": prog["mode"],
        "features": prog.get("features"),
        "components": {c["name"]: {"template": c.get("_src") or emit.emit_nodes(c["tmpl"], c["name"] if c.get("echo_id") else None),
                                   "injects": c["injects"], "hooks": c.get("hooks"),
                                   **({"data": c["extra_data"]} if c.get("extra_data") else {})} for c in prog["comps"]},
        "page": emit.page_source(prog),
        "context": prog["ctx"],
    }


def real_render_python(prog, classes, w, budget=None, slot_funcs=0):
    """Entry variant: Component.render(kwargs=..., slots=...) for a py_entry page."""
    node = prog["page"][0]
    cls = classes[node[1]]
    kwargs = {k: e[1] for k, e in node[2]}
    slots = {}
    for i, f in enumerate(node[5] if node[4] == "fills" else []):
        text = f[4][0][1]
        if (slot_funcs >> i) & 1:
            def fn(ctx, data, ref_, text=text, name=f[1][1]):
                world.fault_point("slotfn:" + name)
                return text
            slots[f[1][1]] = fn
        else:
            slots[f[1][1]] = text
    from django.template import Context

    try:
        cm = StepBudget(budget) if budget else None
        if cm:
            cm.__enter__()
        try:
            html = cls.render(context=Context(dict(prog["ctx"])), kwargs=kwargs, slots=slots)
        finally:
            if cm:
                cm.__exit__()
                LAST_STEPS[0] = cm.n
        return ("ok", str(html))
    except world.StepBudgetExceeded as e:
        return ("hang", str(e))
    except RecursionError:
        return ("hang", "RecursionError")
    except Exception as e:
        return ("err", type(e).__name__, str(e), e)


def gen_prefix_ops(ch, params, mode, max_ops, pfx="p"):
    """History prefix (DESIGN.md 4/C01): other renders (some failing), cache loss, GC, before the checked op."""
    n = ch.small(max_ops, "n_prefix", 1, 2)
    ops = []
    for k in range(n):
        kind = ch.weighted([3, 3, 1, 1], "prefix_kind")
        if kind in (0, 1):
            sub = dict(params, size_lo=3, size_hi=14, max_comps=2, py_entry=0)
            p = rename_program(progmod.generate(ch, sub), f"{pfx}{k}")
            p["mode"] = mode
            op = {"op": "render", "prog": p, "fault_at": None, "exc": 0}
            if kind == 1:
                op["fault_at"] = 1 + ch.draw(6, "prefix_fault_at")
                op["exc"] = ch.draw(len(world.exc_kinds()), "prefix_exc")
            ops.append(op)
        elif kind == 2:
            ops.append({"op": "cache_clear"})
        else:
            ops.append({"op": "gc"})
    return ops


def run_prefix_ops(ops, w, stats):
    for op in ops:
        if op["op"] == "render":
            classes = emit.build_classes(op["prog"])
            w.begin_op(fault_at=op["fault_at"], exc_kind=op["exc"])
            r = real_render_page(op["prog"], classes, w, budget=3_000_000)
            fired = w.main.fired is not None
            stats["fault:EXC@callback (history prefix)"] = stats.get("fault:EXC@callback (history prefix)", 0) + (1 if fired else 0)
            stats["prefix_renders"] = stats.get("prefix_renders", 0) + 1
            w.log("prefix", r[0], r[1] if r[0] != "ok" else normalise(r[1]))
        elif op["op"] == "cache_clear":
            world.media_cache_fault("clear")
            stats["fault:CACHE_CLEAR"] = stats.get("fault:CACHE_CLEAR", 0) + 1
        elif op["op"] == "gc":
            world.gc_now()
            stats["fault:GC_NOW"] = stats.get("fault:GC_NOW", 0) + 1


def decoded_ops(ops):
    out = []
    for op in ops:
        if op["op"] == "render":
            out.append({"op": "render", "program": decoded_program(op["prog"]), "fault_at": op["fault_at"],
                        "exc": world.exc_kinds()[op["exc"]][0] if op["fault_at"] else None})
        else:
            out.append({"op": op["op"]})
    return out


def skipped_if_too_big(exp, w=None):
    """Programs whose rendering explodes combinatorially are not executed (no verdict either way); returns a result."""
    if exp["result"][0] != "toobig":
        return None
    return {"violations": [], "key": None, "nontrivial": False, "stats": {"skipped:program_too_large": 1},
            "digest": "toobig"}
