"""render-sim: generated component programs executed by the real library and by the reference renderer."""
import hashlib
import json
import re
import sys

from sim import world
from sim.model import emit, prog as progmod, ref

RENDERED_RE = re.compile(r"<!--\s*_RENDERED\s.*?-->", re.S)
DJC_ID_RE = re.compile(r'\sdata-djc-id-[0-9a-zA-Z]{6}(?:="")?')
DATA_O_RE = re.compile(r'\sdata-o="[^"]*"')


def normalise(html):
    html = RENDERED_RE.sub("", html)
    html = DJC_ID_RE.sub("", html)
    html = DATA_O_RE.sub("", html)
    return html


class StepBudget:
    """Deterministic hang detector: counts call events in library frames (DESIGN.md 3.5)."""

    def __init__(self, cap):
        self.cap = cap
        self.n = 0
        self.prev = None

    def _trace(self, frame, event, arg):
        if event == "call":
            fn = frame.f_code.co_filename
            if "django_components" in fn:
                self.n += 1
                if self.n > self.cap:
                    raise world.StepBudgetExceeded(f"more than {self.cap} library calls")
        return None

    def __enter__(self):
        self.prev = sys.gettrace()
        sys.settrace(self._trace)
        return self

    def __exit__(self, *a):
        sys.settrace(self.prev)
        return False


LAST_STEPS = [0]


def real_render_page(prog, classes, w, budget=None):
    """Template(page).render(Context(ctx)) -> ("ok", html) | ("err", type name, message, exc)."""
    from django.template import Context, Template

    src = emit.page_source(prog)
    try:
        cm = StepBudget(budget) if budget else None
        if cm:
            cm.__enter__()
        try:
            t = Template(src)
            html = t.render(Context(dict(prog["ctx"])))
        finally:
            if cm:
                cm.__exit__()
                LAST_STEPS[0] = cm.n
        return ("ok", str(html))
    except world.StepBudgetExceeded as e:
        return ("hang", str(e))
    except RecursionError as e:
        return ("hang", "RecursionError")
    except Exception as e:
        return ("err", type(e).__name__, str(e), e)


# ---------------------------------------------------------------------------------------------
# shared session helpers
# ---------------------------------------------------------------------------------------------
KNOB_SIZES = [128, 0, 1, 2, None]


def draw_knobs(ch, cache_variants=("default-locmem",)):
    """Environment knobs of a run (swarm): id stream, template cache size, media-cache backend."""
    return {
        "id_seed": ch.fork_seed("id_seed"),
        "template_cache_size": KNOB_SIZES[ch.weighted([4, 1, 2, 1, 1], "tcs")],
        "cache_variant": cache_variants[ch.draw(len(cache_variants), "cache_variant")],
    }


def start_world(knobs, mode):
    w = world.World(id_seed=knobs["id_seed"])
    world.install(w)
    world.apply_config(mode=mode, template_cache_size=knobs["template_cache_size"],
                       cache_variant=knobs["cache_variant"])
    return w


def rename_program(prog, pfx):
    """Give the components of a program a private name prefix so several programs can live in one registry."""
    mapping = {c["name"]: pfx + c["name"] for c in prog["comps"]}
    s = json.dumps(prog)
    # component names only occur as whole JSON strings or as data-variable prefixes "cN_"
    for old, new in sorted(mapping.items(), key=lambda kv: -len(kv[0])):
        s = re.sub(r'(?<![A-Za-z0-9_])%s(?=[_"])' % re.escape(old), new, s)
    return json.loads(s)


def all_dynamic(prog):
    """Variant: every component tag goes through the dynamic component."""
    p = json.loads(json.dumps(prog))

    def walk(nodes):
        for n in nodes:
            k = n[0]
            if k == "comp":
                n[6] = True
                walk(n[5])
            elif k == "if":
                walk(n[2]); walk(n[3])
            elif k in ("for", "with", "elem", "provide"):
                walk(n[3])
            elif k == "fill":
                walk(n[4])
            elif k == "slot":
                walk(n[5])
    walk(p["page"])
    for c in p["comps"]:
        walk(c["tmpl"])
    return p


def compare(real, expected):
    """None if the real result refines the model's, else (class, fingerprint-part, description)."""
    if real[0] == "hang":
        return ("HANG", "hang", real[1])
    if expected[0] == "ok":
        if real[0] != "ok":
            return ("EXCEPTION", real[1], f"raised {real[1]}: {real[2][:300]!r}, model renders {expected[1][:200]!r}")
        got = normalise(real[1])
        if got != expected[1]:
            return ("OUTPUT", "output", f"real {got[:400]!r} != model {expected[1][:400]!r}")
        return None
    # model predicts an error
    if real[0] == "ok":
        return ("MISSING-ERROR", expected[1], f"rendered {normalise(real[1])[:200]!r}, model raises {expected[1]} ({expected[2]})")
    if real[1] != expected[1]:
        return ("EXCEPTION-TYPE", real[1], f"raised {real[1]}: {real[2][:300]!r}, model raises {expected[1]} ({expected[2]})")
    return None


def program_features(prog, model):
    """Cheap structural probes used for the non-triviality rule."""
    pr = model.probes
    return {
        "fill_crosses_boundary": pr.get("fill_crosses_boundary", 0),
        "slot_default_content": pr.get("slot_default_content", 0),
        "slot_filled": pr.get("slot_filled", 0),
        "instances": len(model.insts),
    }


def skeleton_key(prog, extra=()):
    sk = progmod.program_skeleton(prog)
    return hashlib.blake2b(json.dumps([sk, list(extra)], sort_keys=True).encode(), digest_size=8).hexdigest()


def decoded_program(prog):
    return {
        "mode": prog["mode"],
        "features": prog.get("features"),
        "components": {c["name"]: {"template": c.get("_src") or emit.emit_nodes(c["tmpl"], c["name"] if c.get("echo_id") else None),
                                   "injects": c["injects"], "hooks": c.get("hooks")} for c in prog["comps"]},
        "page": emit.page_source(prog),
        "context": prog["ctx"],
    }
