"""MANIFEST.setup_cmd: nothing to build - byte-compile the framework and check that the interpreter can import
Django, the native HTML parser and the library from the current working tree of /repo."""
import compileall
import os
import subprocess
import sys

HERE = os.path.dirname(os.path.abspath(__file__))
VERIF = os.path.dirname(HERE)
ok = compileall.compile_dir(os.path.join(VERIF, "sim"), quiet=1) and compileall.compile_dir(HERE, quiet=1)
r = subprocess.run(
    [sys.executable, "-c",
     "import sys; sys.path.insert(0, %r); from sim import boot; boot.boot(); import django, djc_core_html_parser, "
     "django_components; print('django', django.get_version(), 'django_components from', django_components.__file__)" % VERIF],
    capture_output=True, text=True)
print(r.stdout.strip() or r.stderr[-2000:])
sys.exit(0 if ok and r.returncode == 0 else 1)
