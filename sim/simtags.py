"""Template tags / filters that stand for *user code inside templates* (surface S6).

Each invocation passes through the current World's fault_point, which may raise the planned
exception at the planned invocation index.
"""
from django import template

from sim import world as _world

register = template.Library()


@register.simple_tag(name="vfault")
def vfault(site):
    _world.fault_point("tag:" + str(site))
    return ""


@register.filter(name="vf")
def vf(value, site):
    _world.fault_point("filter:" + str(site))
    return value
