"""Workload language: random component programs (DESIGN.md Appendix A).

A program is plain JSON-able data:
  {"mode":..., "comps":[compdef...], "page":[node...], "ctx":{...}}
Nodes are lists headed by a kind string, see the emitters in emit.py / the interpreter in ref.py.
Every random decision goes through the Choices object; 0 is always the simplest choice.
"""

SLOT_NAMES = ["a", "b", "dflt"]
# (the last ones: absolute URLs that differ only in their query string / fragment - distinct files, e.g. web-font or
#  maps-API URLs; Django leaves absolute paths as they are)
MEDIA_JS = ["shared.js", "a.js", "b.js", "/v/api.js?lib=places", "/v/api.js?lib=drawing"]
MEDIA_CSS = ["shared.css", "x.css", "y.css", "https://f.example/css2?family=Lato", "https://f.example/css2?family=Roboto",
             "/v/t.css#alt"]
POOL = ["va", "vb", "vc"]
PROVIDE_KWARGS = ["pva", "pvb", "pvc"]
ELEM_TAGS = ["div", "span", "article", "section"]
# class-name pool; entries beyond the first few stress C04 (names outside [A-Za-z0-9_], prefixes of each other)
# (the last one: a valid identifier with combining marks - Thai vowel / tone signs are category Mn, which `\w` does not match)
CLASS_NAMES = ["Comp", "Comp_x", "CompComp", "Knopf", "Tlačítko", "Кнопка", "按钮", "Comp1", "ปุ่ม"]

FEATURES = [
    "loops", "ifs", "withs", "nested_slots", "slot_in_fill", "fills_cond", "fills_loop", "dyn_names",
    "aliases", "provide", "faults", "negative", "only", "repeat_slots", "hooks", "dynamic", "inject_default",
]


def default_params(tier, **over):
    q = tier == "quick"
    p = {
        "max_comps": 4 if q else 6,
        "max_depth": 5 if q else 8,
        "size_lo": 6,
        "size_hi": 45 if q else 90,
        "elems": False,       # element mode (C14 / C04)
        "assets": False,      # js / css / Media on classes (C04 / C19)
        "provide_bias": 0,    # extra weight for provide / inject (C05)
        "force": [],          # features forced on
        "forbid": [],         # features forced off
        "neg_den": 5,         # 1/neg_den of the programs may contain error-producing shapes
        "tryfail": 6,         # 1/tryfail of the components try a stand-alone render that fails, and carry on
    }
    p.update(over)
    return p


class Gen:
    def __init__(self, ch, P):
        self.ch = ch
        self.P = P
        self.n_tok = 0
        self.n_var = 0
        self.n_site = 0
        self.budget = 0
        self.feats = {}
        self.comps = []
        self.provide_keys = ["k0", "k1"]

    # -- small helpers ------------------------------------------------------
    def tok(self):
        self.n_tok += 1
        return f"t{self.n_tok}"

    def newvar(self, prefix):
        self.n_var += 1
        return f"{prefix}{self.n_var}"

    def site(self):
        self.n_site += 1
        return f"s{self.n_site}"

    def on(self, f):
        return self.feats.get(f, False)

    def pool_bindings(self):
        """Whether {% for %} / {% with %} may bind the colliding pool names (collision mode).
        Not in django-mode programs that use the `only` flag: there the two open C03 findings (F7: loop layer forwarded
        into isolated components, F15: captured fill variables merged / misplaced) compose with each other in ways their
        single-quirk diagnosis models do not reproduce, so a hit could not be told from a new defect. Pool names are
        still bound by page context and component data, and read everywhere, in those programs."""
        return bool(self.P.get("collide")) and not (getattr(self, "mode", None) == "django" and self.on("only"))

    def expr(self, scope, label="expr", tag_input=False):
        """String-valued expression: literal or a string variable in scope. tag_input=True: the expression is an input of
        one of the LIBRARY's tags (filters and quoted nested expressions are the library's own parsing there)."""
        strs = scope["str"]
        if strs and self.ch.chance(1, 2, label):
            name = self.ch.choice(strs, label)
            k = self.ch.weighted([8, 2 if self.on("faults") else 0, 2], label + "_form") if tag_input else 0
            if k == 1:
                return ["varf", name, self.site()]      # user code (a filter) inside a TAG INPUT:  s=name|vf:"s7"
            if k == 2:
                return ["tpl", name]                    # quoted string with a nested expression:   s="{{ name }}"
            return ["var", name]
        return ["lit", self.tok().upper()]

    # -- program ------------------------------------------------------------
    def program(self):
        ch, P = self.ch, self.P
        mode = ["django", "isolated"][ch.draw(2, "mode")]
        self.mode = mode
        negative = ch.chance(1, P["neg_den"], "negative")
        for f in FEATURES:
            if f == "negative":
                self.feats[f] = negative
            elif f in P["forbid"]:
                self.feats[f] = False
            elif f in P["force"]:
                self.feats[f] = True
            else:
                self.feats[f] = ch.chance(3, 5, "feat:" + f)
        self.budget = ch.int_between(P["size_lo"], P["size_hi"], "size")
        if P.get("reuse_comps"):
            # another page over an existing component library (tasks of C07 that share classes)
            import json as _json
            self.comps = _json.loads(_json.dumps(P["reuse_comps"]))
            n = len(self.comps)
            # the names this page binds ({% for %} / {% with %} variables, aliases) must stay unique also with respect to
            # the templates of the reused library, which another Gen produced (structure mode: no property but C03 may
            # depend on shadowing - vp check seed 1, C04 run 7784, met open finding F15 through 'n1' bound twice)
            self.n_var = 500
            share = max(3, self.budget // 2)
        else:
            n = ch.int_between(1, P["max_comps"], "n_comps")
            self.comps = [None] * n
            share = max(3, self.budget // (n + 1))
            for i in reversed(range(n)):
                self.comps[i] = self.compdef(i, share)
        page_scope = {"str": ["pa", "pb"], "list": ["pl"], "names": ["pn"], "bool": ["pt", "pf"], "aliases": []}
        pl = [f"e{k}" for k in range(ch.draw(4, "len_pl"))]
        if pl and ch.chance(1, 3, "pl_falsy"):
            pl[ch.draw(len(pl), "pl_falsy_pos")] = ""   # a falsy element: conditions on the loop variable vary per iteration
        ctx = {"pa": "PA", "pb": "PB", "pl": pl,
               "pn": ["a", "b"][: 1 + ch.draw(2, "len_pn")], "pt": True, "pf": False}
        if self.on("provide"):
            order = ch.draw(3, "pds_shape")
            ctx["pds"] = [{"pva": "S1", "pvb": "S2"},
                          [{"pvb": "S3", "pva": "S4"}, {"pvc": "S5", "pva": "S6"}, {"pva": "S7"}][order]]
        if P.get("collide"):
            for nm in POOL:
                if ch.chance(1, 2, "page_pool"):
                    ctx[nm] = "P_" + nm
        self.local_budget = share + 2
        py_entry = bool(P.get("py_entry")) and ch.chance(1, P["py_entry"], "py_entry")
        if py_entry:
            page = [self.py_entry_node()]
        else:
            page = self.nodes(page_scope, owner=None, depth=0, top=True)
            if not any(n_[0] == "comp" for n_ in page):
                page.append(self.comp_node(page_scope, None, 0, in_fill=False))
        wrap = 0
        if P.get("page_wrap") and not py_entry:
            wrap = ch.draw(6, "page_wrap")
            css_ph = ["ph", "{% component_css_dependencies %}"]
            js_ph = ["ph", "{% component_js_dependencies %}"]
            if wrap == 1:      # head + body
                page = [["raw", "<html><head><title>T</title></head><body>"]] + page + [["raw", "</body></html>"]]
            elif wrap == 2:    # head + body + placeholders
                page = [["raw", "<html><head>"], css_ph, ["raw", "</head><body>"]] + page + [js_ph, ["raw", "</body></html>"]]
            elif wrap == 3:    # placeholders only
                page = [css_ph] + page + [js_ph]
            elif wrap == 4:    # body only, upper-case-free variant with whitespace in the end tag
                page = [["raw", "<body>"]] + page + [["raw", "</body >"]]
            elif wrap == 5:    # a LAYOUT COMPONENT whose template has the two placeholders as its root elements (so
                # they carry the component's data-djc-id attribute) and the page as its default slot (seeded C04d-1)
                lay = next((c for c in self.comps if c.get("layout")), None)
                if lay is None and P.get("reuse_comps"):
                    wrap = 3   # a page over an existing class library that has no layout component
                    page = [css_ph] + page + [js_ph]
                else:
                    if lay is None:
                        lay = self.layout_cd(css_ph, js_ph)
                        self.comps.append(lay)
                    page = [["comp", lay["name"], [], False, "implicit", page, False]]
        return {"mode": mode, "comps": self.comps, "page": page, "ctx": ctx, "py_entry": py_entry, "page_wrap": wrap,
                "features": sorted(f for f, v in self.feats.items() if v)}

    def layout_cd(self, css_ph, js_ph):
        n = len(self.comps)
        cd = {"name": f"c{n}", "label": f"L{n}", "cls": None, "slots": [["body", True, False, []]], "default_slot": "body",
              "injects": [], "echo_id": False, "hooks": False, "tmpl_via": "template", "js": None, "css": None,
              "media_js": [], "media_css": [], "tryfail": False, "nested_ok": False, "reseed": False, "layout": True,
              "tmpl": [css_ph, ["slot", "body", True, False, [], []], js_ph]}
        if self.P.get("assets"):
            cd.update({"cls": f"Layout{n}", "base": None, "media_extend": True})
        return cd

    def py_entry_node(self):
        """A page that is one component tag with literal kwargs and text-only fills: it can also be rendered
        through Component.render(kwargs=..., slots=...) (C01's third entry variant)."""
        ch = self.ch
        j = ch.draw(len(self.comps), "py_callee")
        cd = self.comps[j]
        kwargs = [["s", ["lit", self.tok().upper()]]] if ch.chance(1, 2, "py_kw") else []
        names = []
        for s_ in cd["slots"]:
            if s_[0] not in names:
                names.append(s_[0])
        pool = list(names)
        if cd["default_slot"] is not None and ch.chance(1, 2, "py_default"):
            pool = [n for n in pool if n != cd["default_slot"]] + ["default"]
        if ch.chance(1, 4, "py_unused"):
            pool.append("zz")
        required = [s_[0] for s_ in cd["slots"] if s_[2]]
        chosen = [n for n in pool if n in required or ch.chance(2, 3, "py_fill?")]
        fills = [["fill", ["lit", n], None, None, [["text", self.tok()]]] for n in chosen]
        if not fills:
            return ["comp", cd["name"], kwargs, False, "none", [], False]
        return ["comp", cd["name"], kwargs, False, "fills", fills, False]

    def compdef(self, i, share):
        ch = self.ch
        name = f"c{i}"
        cd = {
            "name": name,
            "label": f"L{i}",
            "cls": None,
            "slots": [],
            "default_slot": None,
            "injects": [],
            "echo_id": False,
            "hooks": self.on("hooks") and ch.chance(1, 2, "hooks"),
            # the template comes from the `template` attribute or from the user's get_template() (one more user callback)
            # (not in assets mode: there the classes inherit from each other, and a class that inherits `template` and
            # defines get_template() is rightly refused by the library)
            "tmpl_via": "get_template" if (ch.chance(1, 4, "tmpl_via") and not self.P.get("assets")) else "template",
            "js": None, "css": None, "media_js": [], "media_css": [],
        }
        if self.on("provide"):
            for k in self.provide_keys:
                if ch.chance(1 + self.P["provide_bias"], 3 + self.P["provide_bias"], "inject"):
                    has_default = self.on("inject_default") and ch.chance(1, 2, "inj_default")
                    if not has_default and not self.on("negative"):
                        # without a default, a missing provider is an error: only allowed in negative programs,
                        # otherwise callers are responsible (see comp_node) -- keep it simple: give a default
                        has_default = not ch.chance(1, 3, "inj_nodefault")
                    cd["injects"].append([k, has_default])
        # user code that renders another component on its own inside get_context_data, and falls back when that fails
        cd["tryfail"] = bool(self.P.get("tryfail")) and ch.chance(1, self.P["tryfail"], "tryfail")
        # ... or that succeeds (result unused), and user code that re-seeds Python's global PRNG
        cd["nested_ok"] = bool(self.P.get("tryfail")) and ch.chance(1, self.P["tryfail"], "nested_ok")
        cd["reseed"] = bool(self.P.get("tryfail")) and ch.chance(1, self.P["tryfail"], "reseed")
        if self.P.get("assets"):
            self.assets(cd, i)
        if self.P.get("collide"):
            cd["extra_data"] = {nm: "D%s_%s" % (cd["label"], nm) for nm in POOL if ch.chance(1, 3, "data_pool")}
        self.comps[i] = cd  # visible to slot()
        scope = {"str": [f"{name}_s"], "list": [f"{name}_l"], "names": [f"{name}_n"],
                 "bool": [f"{name}_t", f"{name}_f"], "aliases": []}
        for k, _ in cd["injects"]:
            scope["str"].append(f"{name}_inj_{k}")
        self.local_budget = share
        cd["tmpl"] = self.nodes(scope, owner=i, depth=0, top=True)
        if self.P["elems"]:
            cd["echo_id"] = True
        return cd

    def assets(self, cd, i):
        ch = self.ch
        label = cd["label"]
        used = {c["cls"] for c in self.comps if c is not None}
        pool = [n for n in CLASS_NAMES if n not in used] or [f"Extra{i}"]
        cd["cls"] = pool[ch.weighted([6] + [1] * (len(pool) - 1), "clsname")]
        jk = ch.weighted([3, 5, 1, 2], "js_kind")       # none / code / blank / code with backslashes
        cd["js"] = [None, 'console.log("JS_%s");' % label, "  \n ",
                    'var re_%s = /\\d+\\n/g; console.log("JS\\1_%s\\\\");' % (label, label)][jk]
        ck = ch.weighted([3, 5, 1, 2], "css_kind")
        cd["css"] = [None, ".%s { color: red; }" % label, " ",
                     '.%s::before { content: "\\201C\\g<0>"; }' % label][ck]
        cd["media_js"] = ch.subset(MEDIA_JS, "media_js", 1, 3)
        files = ch.subset(MEDIA_CSS, "media_css", 1, 3)
        if files and ch.chance(1, 3, "css_dict"):
            cd["media_css"] = {"all": files[:1], "print": files[1:]} if len(files) > 1 else {"print": files}
            if ch.chance(1, 3, "css_dict_overlap"):
                # the same file under two media types: still delivered exactly once (C04)
                cd["media_css"] = {"all": list(files), "print": files[:1]}
        else:
            cd["media_css"] = files
        later = [j for j in range(i + 1, len(self.comps)) if self.comps[j] is not None]
        cd["base"] = self.comps[ch.choice(later, "base")]["name"] if later and ch.chance(1, 4, "has_base") else None
        cd["media_extend"] = not ch.chance(1, 4, "extend_false") if (cd["base"] or True) else True

    # -- node lists ---------------------------------------------------------
    def nodes(self, scope, owner, depth, top=False, in_fill=False, in_slot_default=False):
        ch = self.ch
        out = []
        n = 1 + ch.small(3, "n_nodes", 3, 5)
        for _ in range(n):
            if self.budget <= 0 or self.local_budget <= 0:
                break
            out.append(self.node(scope, owner, depth, in_fill, in_slot_default))
        if not out:
            out.append(["text", self.tok()])
        return out

    def node(self, scope, owner, depth, in_fill, in_slot_default):
        ch, P = self.ch, self.P
        self.budget -= 1
        self.local_budget -= 1
        deep = depth >= P["max_depth"]
        callees = self.callees(owner)
        kinds = [("text", 6)]
        if scope["str"]:
            kinds.append(("var", 4))
        if self.on("provide"):
            kinds.append(("pvar", 1))
        if P.get("collide"):
            kinds.append(("cvar", 6))
        if P["elems"] and not deep:
            kinds.append(("elem", 6))
        if not deep:
            if self.on("ifs"):
                kinds.append(("if", 2))
            if self.on("loops") and scope["list"]:
                kinds.append(("for", 2))
            if self.on("withs"):
                kinds.append(("with", 1))
            if callees:
                kinds.append(("comp", 6))
            if self.on("provide"):
                kinds.append(("provide", 2 + 2 * P["provide_bias"]))
        can_slot = owner is not None and (not in_fill or self.on("slot_in_fill")) and \
            (not in_slot_default or self.on("nested_slots"))
        if can_slot and not deep:
            kinds.append(("slot", 6))
        if owner is not None:
            kinds.append(("filled", P.get("filled_weight", 1)))
        if self.on("faults"):
            kinds.append(("fault", 1))
        if scope["aliases"]:
            kinds.append(("alias", 4))
        if scope.get("loops", 0) > 0 and (self.pool_bindings() or not in_fill):
            # (`forloop` collides by nature with every other loop; inside fill content that meets open finding F15, so it
            # is echoed there only in collision mode, where C03's diagnosis can tell F15 from a new defect - and, like the
            # other colliding bindings, not in django-mode programs that use `only`: thorough run 138899)
            kinds.append(("forloop", 3))
        k = kinds[ch.weighted([w for _, w in kinds], "kind")][0]
        if k == "text":
            return ["text", self.tok()]
        if k == "var":
            name = ch.choice(scope["str"], "var")
            if self.on("faults") and ch.chance(1, 6, "varf"):
                return ["varf", name, self.site()]
            return ["var", name]
        if k == "forloop":
            depth_ = scope["loops"]
            up = ch.weighted([1, 2, 1][:min(depth_, 3)], "forloop_up")  # with nested loops prefer forloop.parentloop.*
            return ["forloop", up, ["counter", "counter0", "first", "last"][ch.draw(4, "forloop_attr")]]
        if k == "cvar":
            return ["var", ch.choice(POOL, "cvar")]
        if k == "pvar":
            return ["var", ch.choice(PROVIDE_KWARGS + self.provide_keys, "pvar")]
        if k == "elem":
            return self.maybe_include(["elem", ELEM_TAGS[ch.draw(len(ELEM_TAGS), "tag")], self.tok(),
                                       self.nodes(scope, owner, depth + 1, in_fill=in_fill, in_slot_default=in_slot_default)],
                                      in_fill, in_slot_default)
        if k == "if":
            cond = ch.choice(scope["bool"] + scope["str"][:1], "ifvar")
            then = self.nodes(scope, owner, depth + 1, in_fill=in_fill, in_slot_default=in_slot_default)
            els = self.nodes(scope, owner, depth + 1, in_fill=in_fill, in_slot_default=in_slot_default) \
                if ch.chance(1, 3, "else") else []
            return ["if", cond, then, els]
        if k == "for":
            lst = ch.choice(scope["list"], "forlist")
            x = ch.choice(POOL, "loopvar_pool") if (self.pool_bindings() and ch.chance(1, 2, "loopvar_collide")) else self.newvar("x")
            sc = dict(scope, str=scope["str"] + [x], loops=scope.get("loops", 0) + 1)
            return ["for", x, lst, self.nodes(sc, owner, depth + 1, in_fill=in_fill, in_slot_default=in_slot_default)]
        if k == "with":
            w = ch.choice(POOL, "with_pool") if (self.pool_bindings() and ch.chance(1, 2, "with_collide")) else self.newvar("w")
            e = self.expr(scope, "withexpr")
            sc = dict(scope, str=scope["str"] + [w])
            return ["with", w, e, self.nodes(sc, owner, depth + 1, in_fill=in_fill, in_slot_default=in_slot_default)]
        if k == "comp":
            return self.maybe_include(self.comp_node(scope, owner, depth, in_fill), in_fill, in_slot_default)
        if k == "provide":
            key = ch.choice(self.provide_keys, "pkey")
            # provider kwarg names come from a small fixed pool, so that any template may try to read them as
            # variables (they must never be visible: "provided values never become template variables")
            first = ch.draw(3, "pkw_first")
            kw = [[PROVIDE_KWARGS[(first + q) % 3], self.expr(scope, "pval", tag_input=True)] for q in range(1 + ch.draw(2, "n_pkw"))]
            if owner is None and not in_fill and ch.chance(1, 4, "provide_spread"):
                # the same {% provide %} tag rendered once per dict of `pds`, its kwargs coming from a spread: the dicts
                # differ in key order / names, so anything memoised on the tag from an earlier render shows
                body = self.nodes(scope, owner, depth + 1, in_fill=in_fill, in_slot_default=in_slot_default)
                return ["for", "pd", "pds", [["provide", key, [["...", ["var", "pd"]]], body]]]
            return ["provide", key, kw,
                    self.nodes(scope, owner, depth + 1, in_fill=in_fill, in_slot_default=in_slot_default)]
        if k == "slot":
            return self.slot_node(scope, owner, depth, in_fill)
        if k == "filled":
            return ["filled", ch.choice(SLOT_NAMES + ["default"], "filledname")]
        if k == "fault":
            return ["fault", self.site()]
        if k == "alias":
            al = ch.choice(scope["aliases"], "alias")
            if al[1] == "data":
                keys = al[2] + ["nokey"]
                return ["alias_data", al[0], ch.choice(keys, "aliaskey")]
            return ["alias_default", al[0]]
        raise AssertionError(k)

    def maybe_include(self, node, in_fill, in_slot_default):
        """Move an element / component tag into a partial template of its own that is pulled in with {% include %}:
        same output (the partial renders with the same context), but the tag is no longer a node of the template it
        appears in - whatever the library decides by inspecting a template's own node list does not see it."""
        den = self.P.get("includes")
        if den and not in_fill and not in_slot_default and self.ch.chance(1, den, "include"):
            return ["include", None, None, [node]]
        return node

    def callees(self, owner):
        lo = 0 if owner is None else owner + 1
        return [j for j in range(lo, len(self.comps)) if self.comps[j] is not None and not self.comps[j].get("layout")]

    # -- slot ---------------------------------------------------------------
    def slot_node(self, scope, owner, depth, in_fill):
        ch = self.ch
        cd = self.comps[owner]
        existing = [s[0] for s in cd["slots"]]
        if existing and self.on("repeat_slots") and ch.chance(1, 4, "repeat"):
            name = ch.choice(existing, "slotname")
        else:
            name = ch.choice(SLOT_NAMES, "slotname")
        is_default = False
        if cd["default_slot"] == name:
            is_default = ch.chance(3, 4, "isdefault")
        elif cd["default_slot"] is None:
            is_default = ch.chance(1, 3, "isdefault")
            if is_default:
                cd["default_slot"] = name
        elif self.on("negative"):
            is_default = ch.chance(1, 6, "isdefault2")
        is_required = ch.chance(1, 5, "required")
        data = []
        if self.on("aliases"):
            data = [[self.newvar("sd"), self.expr(scope, "slotdata", tag_input=True)] for _ in range(ch.draw(3, "n_slotdata"))]
        cd["slots"].append([name, is_default, is_required, [d[0] for d in data]])
        body = []
        if ch.chance(3, 4, "slotbody"):
            body = self.nodes(scope, owner, depth + 1, in_fill=in_fill, in_slot_default=True)
        return ["slot", name, is_default, is_required, data, body]

    # -- component tag ------------------------------------------------------
    def comp_node(self, scope, owner, depth, in_fill):
        ch = self.ch
        callees = self.callees(owner)
        j = ch.choice(callees, "callee")
        cd = self.comps[j]
        kwargs = []
        if ch.chance(1, 2, "kw_s"):
            kwargs.append(["s", self.expr(scope, "kw_s_val", tag_input=True)])
        if scope["list"] and ch.chance(1, 2, "kw_l"):
            kwargs.append(["l", ["var", ch.choice(scope["list"], "kw_l_val")]])
        only = self.on("only") and ch.chance(1, self.P.get("only_den", 4), "only")
        dyn = self.on("dynamic") and ch.chance(1, 3, "dyn")
        slots = cd["slots"]
        names = []
        for s in slots:
            if s[0] not in names:
                names.append(s[0])
        required = [s[0] for s in slots if s[2]]
        dflt = cd["default_slot"]
        bk = ch.weighted([3, 3, 5], "bodykind")  # none / implicit / fills
        # fill bodies are lexically scoped; a `default=` alias is only used directly in its own fill body
        # (passing the lazy slot reference on into another component's fill is outside C01/C03's statements)
        inner_scope = dict(scope, aliases=[a for a in scope["aliases"] if a[1] != "default"])
        if bk == 0:
            node = ["comp", cd["name"], kwargs, only, "none", [], dyn]
        elif bk == 1:
            body = self.nodes(inner_scope, owner, depth + 1, in_fill=True)
            node = ["comp", cd["name"], kwargs, only, "implicit", body, dyn]
        else:
            pool = list(names)
            if dflt is not None and ch.chance(1, 2, "use_default_name"):
                pool = [n for n in pool if n != dflt or self.on("negative")] + ["default"]
            if ch.chance(1, 4, "unused_fill"):
                pool.append("zz")
            if not pool:
                pool = ["a"]
            chosen = [n for n in pool if n in required or ch.chance(2, 3, "fill?")]
            if self.on("negative") and chosen and ch.chance(1, 5, "dupfill"):
                chosen.append(chosen[0])
            if not chosen:
                chosen = [pool[0]]
            fnodes = []
            for nm in chosen:
                slot_decl = next((s for s in slots if s[0] == nm or (nm == "default" and s[1])), None)
                fnodes.append(self.fill_node(inner_scope, owner, depth + 1, nm, slot_decl))
            if self.on("negative") and ch.chance(1, 6, "text_beside_fills"):
                fnodes.insert(ch.draw(len(fnodes) + 1, "tbf_pos"), ["text", self.tok()])
            if self.P.get("includes") and not self.on("negative") and ch.chance(1, self.P["includes"], "fills_via_include"):
                # the {% fill %} tags of this component tag arrive through {% include %} of a partial that holds them
                fnodes = [["include", None, None, fnodes]]
            node = ["comp", cd["name"], kwargs, only, "fills", fnodes, dyn]
        return node

    def fill_node(self, scope, owner, depth, name, slot_decl):
        ch = self.ch
        data_alias = default_alias = None
        sc = scope
        if self.on("aliases"):
            if ch.chance(1, 3, "data_alias"):
                data_alias = ch.choice(POOL, "data_alias_pool") if (self.P.get("collide") and ch.chance(1, 2, "data_alias_collide")) \
                    else self.newvar("da")
                keys = list(slot_decl[3]) if slot_decl else []
                sc = dict(sc, aliases=sc["aliases"] + [[data_alias, "data", keys]])
            if ch.chance(1, 3, "default_alias"):
                # (the default alias keeps a unique name: a pool name could be read from inside another component's
                # fill, which is the excluded "lazy slot reference passed on" shape, see DESIGN.md 9.2)
                default_alias = self.newvar("df")
                sc = dict(sc, aliases=sc["aliases"] + [[default_alias, "default", []]])
        wrap = 0
        if self.on("fills_cond") or self.on("fills_loop") or self.on("dyn_names"):
            wrap = ch.weighted([6, 2 if self.on("fills_cond") else 0, 2 if self.on("fills_loop") else 0,
                                2 if self.on("dyn_names") else 0], "fillwrap")
        if wrap == 2 and scope["list"]:
            # looped fill: only legal (no duplicate names) when the list has <= 1 element, unless the name is
            # dynamic; the model predicts the duplicate-fill error otherwise -> only in negative programs
            if not self.on("negative"):
                wrap = 3 if self.on("dyn_names") else 0
        if wrap == 3 and not scope["names"]:
            wrap = 0
        if wrap == 3:
            # dynamically named fills: {% for n in names %}{% fill name=n %}...{% endfill %}{% endfor %}
            x = self.newvar("n")
            lst = ch.choice(scope["names"], "namelist")
            # `forloop` is a colliding name by nature: inside a fill that sits in a loop between tag and fill it hits open
            # finding F15 (captured variables misplaced) - echoed there only in collision mode (C03 diagnoses F15)
            sc2 = dict(sc, str=sc["str"] + [x], loops=(sc.get("loops", 0) + 1) if self.P.get("collide") else 0)
            body = self.nodes(sc2, owner, depth + 1, in_fill=True)
            nameexpr = ["tpl", x] if ch.chance(1, 3, "dyn_name_tpl") else ["var", x]
            return ["for", x, lst, [["fill", nameexpr, data_alias, default_alias, body]]]
        if wrap == 0 and self.pool_bindings() and getattr(self, "mode", None) == "django" and not self.on("slot_in_fill") \
                and ch.chance(1, 3, "fill_with"):
            # (not combined with slots inside fills: there the captured variables of sibling fills reach each other
            # through shared context objects - the mechanism of open finding F15 - in ways its quirk model does not
            # reproduce exactly, so the diagnosis could not tell it from a new defect)
            # {% with %} between the component tag and the fill (django mode only: in isolated mode statement, docs and
            # code disagree among themselves about this shape, so it is not generated there)
            wname = ch.choice(POOL, "fill_with_name")
            e = self.expr(scope, "fill_with_expr")
            sc4 = dict(sc, str=sc["str"] + [wname])
            body = self.nodes(sc4, owner, depth + 1, in_fill=True)
            return ["with", wname, e, [["fill", ["lit", name], data_alias, default_alias, body]]]
        body = self.nodes(sc, owner, depth + 1, in_fill=True) if ch.chance(5, 6, "fillbody") else []
        f = ["fill", ["lit", name], data_alias, default_alias, body]
        if wrap == 1:
            loopvars = [v for v in scope["str"] if v.startswith("x") or v in POOL]
            cond = ch.choice(scope["bool"] + loopvars[-2:], "fillcond")
            return ["if", cond, [f], []]
        if wrap == 2 and scope["list"]:
            x = ch.choice(POOL, "fillloop_pool") if (self.pool_bindings() and ch.chance(1, 2, "fillloop_collide")) else self.newvar("x")
            lst = ch.choice(scope["list"], "filllooplist")
            sc3 = dict(sc, str=sc["str"] + [x], loops=(sc.get("loops", 0) + 1) if self.P.get("collide") else 0)
            f[4] = self.nodes(sc3, owner, depth + 1, in_fill=True)
            return ["for", x, lst, [f]]
        return f


def generate(ch, P):
    if P.get("ladder") and ch.chance(1, P["ladder"], "ladder"):
        return generate_ladder(ch, P)
    if P.get("loop_ladder") and ch.chance(1, P["loop_ladder"], "loop_ladder"):
        return generate_loop_ladder(ch, P)
    if P.get("reentrant") and ch.chance(1, P["reentrant"], "reentrant"):
        return generate_reentrant(ch, P)
    return Gen(ch, P).program()


def generate_reentrant(ch, P):
    """Dense family for RE-ENTRANT fill rendering (F16, seeded change C03d-2): a slot whose default content contains the
    same slot again (or a sibling slot), filled with content that renders that default through its `default=` alias from
    inside {% with %} / {% for %} blocks which re-bind page variables. The fill is then rendered again while it is still
    rendering; the inner rendering must see what the fill sees at its own position, not the outer rendering's bindings."""
    mode = ["django", "isolated"][ch.draw(2, "mode")]
    n_tok = [0]

    def tok():
        n_tok[0] += 1
        return f"t{n_tok[0]}"

    form = ch.draw(3, "re_form")
    inner_name = "a" if form == 0 else "b"
    inner = ["slot", inner_name, False, False, [], [["text", tok()]]]
    outer_body = [["text", tok()], inner] + ([["text", tok()]] if ch.chance(1, 2, "re_tail") else [])
    tmpl = [["text", tok()], ["slot", "a", False, False, [], outer_body]]
    if form == 2:
        tmpl.append(["slot", "b", False, False, [], [["text", tok()]]])
    if ch.chance(1, 3, "re_loop_in_comp"):
        tmpl = [["for", "y0", "c0_l", tmpl]]
    comps = [_cd("c0", "L0", tmpl, slots=[["a", False, False, []]] + ([["b", False, False, []]] if form else []))]

    def body(alias, k):
        out = []
        for j in range(1 + ch.draw(3, "re_pieces")):
            kind = ch.weighted([2, 2, 3, 3, 2], "re_piece")
            if kind == 0:
                out.append(["text", tok()])
            elif kind == 1:
                out.append(["var", ["pa", "pb"][ch.draw(2, "re_var")]])
            elif kind == 2:
                nm = ["pa", "pb", f"w{k}{j}"][ch.draw(3, "re_with_name")]
                out.append(["with", nm, ["lit", tok().upper()], [["alias_default", alias], ["var", nm]]])
            elif kind == 3:
                nm = ["pa", "pb", f"x{k}{j}"][ch.draw(3, "re_for_name")]
                out.append(["for", nm, "pl", [["alias_default", alias], ["var", nm], ["forloop", 0, "counter"]]])
            else:
                out.append(["alias_default", alias])
        out.append(["var", "pa"])
        out.append(["var", "pb"])
        return out

    fills = [["fill", ["lit", "a"], None, "d", body("d", 0)]]
    if form and ch.chance(2, 3, "re_fill_b"):
        fills.append(["fill", ["lit", "b"], None, "e", body("e", 1)])
    only = ch.chance(1, 3, "re_only")
    call = [["comp", "c0", [], only, "fills", fills, False]]
    if ch.chance(1, 3, "re_page_loop"):
        call = [["for", "x9", "pl", call + [["var", "x9"]]]]
    page = [["text", tok()]] + call + [["var", "pa"]]
    ctx = {"pa": "PA", "pb": "PB", "pl": ["e0", "e1"], "pn": ["a"], "pt": True, "pf": False}
    return {"mode": mode, "comps": comps, "page": page, "ctx": ctx, "py_entry": False, "page_wrap": 0,
            "features": ["reentrant"]}


def generate_loop_ladder(ch, P):
    """Dense family for loop state under deferred rendering: 2-3 components whose templates nest 1-3 {% for %} loops around
    the tag of the next component; the fill passed to it (and the next component's own template, in django mode) echoes
    loop variables, forloop.* and forloop.parentloop.* - read only when the deferred render finally happens."""
    mode = ["django", "isolated"][ch.draw(2, "mode")]
    n_tok = [0]

    def tok():
        n_tok[0] += 1
        return f"t{n_tok[0]}"

    depth = 2 + ch.draw(2, "ll_depth")
    comps = []
    for i in range(depth):
        name = f"c{i}"
        last = i == depth - 1
        if last:
            comps.append(_cd(name, f"L{i}", [["text", tok()], ["slot", "a", True, False, [], [["text", tok()]]], ["var", f"{name}_s"]],
                             slots=[["a", True, False, []]]))
            continue
        nloops = 1 + ch.draw(3, "ll_loops")
        echo = []
        lv = []
        for q in range(nloops):
            lv.append(f"x{i}_{q}")
        for q in range(1 + ch.draw(3, "ll_echoes")):
            kind = ch.draw(3, "ll_echo_kind")
            if kind == 0:
                echo.append(["var", lv[ch.draw(len(lv), "ll_var")]])
            else:
                echo.append(["forloop", ch.draw(nloops, "ll_up"), ["counter", "counter0", "last"][ch.draw(3, "ll_attr")]])
            echo.append(["text", tok()])
        only = ch.chance(1, 3, "ll_only")
        bk = ch.draw(3, "ll_body")
        if bk == 0:
            call = ["comp", f"c{i + 1}", [["s", ["var", lv[-1]]]], only, "none", [], False]
        elif bk == 1:
            call = ["comp", f"c{i + 1}", [], only, "implicit", echo, ch.chance(1, 4, "ll_dyn")]
        else:
            call = ["comp", f"c{i + 1}", [], only, "fills", [["fill", ["lit", "a"], None, None, echo]], False]
        inner = [call]
        for q in reversed(range(nloops)):
            inner = [["for", lv[q], f"{name}_l", inner + ([["text", tok()]] if ch.chance(1, 3, "ll_sep") else [])]]
        slot = [["slot", "a", True, False, [], []]] if i > 0 else []
        comps.append(_cd(name, f"L{i}", [["text", tok()]] + inner + slot, slots=[["a", True, False, []]] if i > 0 else []))
    page = [["text", tok()], ["comp", "c0", [], False, "none", [], False]]
    ctx = {"pa": "PA", "pb": "PB", "pl": ["e0", "e1"], "pn": ["a"], "pt": True, "pf": False}
    return {"mode": mode, "comps": comps, "page": page, "ctx": ctx, "py_entry": False, "page_wrap": 0,
            "features": ["loop_ladder"]}


def _cd(name, label, tmpl, injects=(), slots=()):
    return {"name": name, "label": label, "cls": None, "slots": [list(s_) for s_ in slots], "default_slot": None,
            "injects": [list(i_) for i_ in injects], "echo_id": False, "hooks": False, "tmpl_via": "template",
            "js": None, "css": None, "media_js": [], "media_css": [], "tmpl": tmpl}


def generate_ladder(ch, P):
    """A dense family of DEEP provider / consumer compositions that random generation reaches only rarely: a ladder of
    3-6 components, each level drawn from {provide k0 / k1, loop, `only`, next level as a direct child or inside a fill of
    a pass-through component whose slot may itself sit inside a provider}, with a consumer of both keys at the bottom (and
    optionally at every level). Plain data like any other program: the reference renderer predicts it."""
    mode = ["django", "isolated"][ch.draw(2, "mode")]
    levels = 3 + ch.draw(4, "ladder_levels")
    n_tok = [0]

    def tok():
        n_tok[0] += 1
        return f"t{n_tok[0]}"

    comps = []
    # two pass-through components: plain slot, and slot inside a provider of k0 / k1
    pk = ["k0", "k1"][ch.draw(2, "pass_key")]
    comps.append(_cd("c0", "L0", [["text", tok()], ["slot", "a", False, False, [], []]], slots=[["a", False, False, []]]))
    comps.append(_cd("c1", "L1", [["provide", pk, [["pva", ["lit", "PASS"]]], [["slot", "a", False, False, [], []]]], ["text", tok()]],
                     slots=[["a", False, False, []]]))
    base = 2
    for i in range(levels):
        name = f"c{base + i}"
        last = i == levels - 1
        injects = []
        if last or ch.chance(1, 3, "mid_consumer"):
            injects = [["k0", True], ["k1", True]]
        body = [["text", tok()]]
        for k, _ in injects:
            body.append(["var", f"{name}_inj_{k}"])
        if not last:
            nxt = f"c{base + i + 1}"
            only = ch.chance(1, 3, "ladder_only")
            call = ["comp", nxt, [], only, "none", [], False]
            how = ch.weighted([3, 2, 2], "ladder_how")  # direct / in a fill of the plain pass-through / of the providing one
            if how:
                call = ["comp", ["c0", "c1"][how - 1], [], ch.chance(1, 4, "pass_only"), "fills",
                        [["fill", ["lit", "a"], None, None, [call]]], False]
            wrap = ch.draw(8, "ladder_wrap")
            inner = [call]
            if wrap & 1:
                inner = [["provide", "k0", [["pva", ["lit", f"P{i}"]]], inner]]
            if wrap & 2:
                inner = [["for", f"x{i}", f"{name}_l", inner]]
            if wrap & 4:
                inner = [["provide", ["k1", "k0"][ch.draw(2, "ladder_key2")], [["pvb", ["lit", f"Q{i}"]]], inner]]
            body += inner
        comps.append(_cd(name, f"L{base + i}", body, injects=injects))
    page = [["text", tok()]]
    top = [["comp", f"c{base}", [], False, "none", [], False]]
    pw = ch.draw(4, "ladder_page_wrap")
    if pw & 1:
        top = [["provide", "k0", [["pva", ["lit", "PAGE"]]], top]]
    if pw & 2:
        top = [["for", "xp", "pl", top]]
    page += top
    ctx = {"pa": "PA", "pb": "PB", "pl": ["e0", "e1"], "pn": ["a"], "pt": True, "pf": False,
           "pds": [{"pva": "S1", "pvb": "S2"}, {"pvb": "S3", "pva": "S4"}]}
    return {"mode": mode, "comps": comps, "page": page, "ctx": ctx, "py_entry": False, "page_wrap": 0,
            "features": ["ladder"]}


# ---------------------------------------------------------------------------------------------
# structural measures used for evidence
# ---------------------------------------------------------------------------------------------
def skeleton(nodes):
    """Shape of a node list without tokens / variable names (for the distinctness measure)."""
    out = []
    for n in nodes:
        k = n[0]
        if k in ("text", "var", "varf", "filled", "fault", "alias_data", "alias_default", "forloop"):
            out.append(k[0])
        elif k == "if":
            out.append(["if", skeleton(n[2]), skeleton(n[3])])
        elif k in ("for", "with"):
            out.append([k, skeleton(n[3])])
        elif k == "elem":
            out.append(["e", skeleton(n[3])])
        elif k == "include":
            out.append(["i", skeleton(n[3])])
        elif k == "comp":
            out.append(["c", n[1], n[3], n[4], skeleton(n[5]), n[6]])
        elif k == "fill":
            out.append(["f", n[1][1] if n[1][0] == "lit" else "?", bool(n[2]), bool(n[3]), skeleton(n[4])])
        elif k == "slot":
            out.append(["s", n[1], n[2], n[3], skeleton(n[5])])
        elif k == "provide":
            out.append(["p", n[1], skeleton(n[3])])
        else:
            out.append(k)
    return out


def program_skeleton(prog):
    return [prog["mode"], [[c["name"], skeleton(c["tmpl"]), c["injects"]] for c in prog["comps"]], skeleton(prog["page"])]
