"""In-process Django cache backend owned by the simulator (stub for Redis/Memcached/...).

Store and clock are module globals so that every backend instance (Django creates one per
thread) sees the same data; the simulator injects faults through the functions below.
Values are pickled on set (as a remote cache would) so that no object identity leaks through.
"""
import pickle

from django.core.cache.backends.base import DEFAULT_TIMEOUT, BaseCache

STORES = {}  # name -> {key: (pickled value, expires_at or None)}
CLOCK = [0.0]  # virtual seconds
STATS = {"get": 0, "set": 0, "hit": 0, "miss": 0, "expired": 0}


def now():
    return CLOCK[0]


def advance(dt):
    CLOCK[0] += dt


def store(name):
    return STORES.setdefault(name, {})


def fault_clear(name):
    n = len(store(name))
    store(name).clear()
    return n


def fault_evict(name, pick):
    """Remove the keys for which pick(sorted_index, key) is true."""
    st = store(name)
    victims = [k for i, k in enumerate(sorted(st)) if pick(i, k)]
    for k in victims:
        del st[k]
    return victims


def dump(name):
    return {k: (v[0].hex(), v[1]) for k, v in store(name).items()}


def load(name, data):
    st = store(name)
    st.clear()
    for k, (hx, exp) in data.items():
        st[k] = (bytes.fromhex(hx), exp)


class SimCache(BaseCache):
    def __init__(self, name, params):
        super().__init__(params)
        self._name = name or "sim"
        self._st = store(self._name)

    def _exp(self, timeout):
        if timeout == DEFAULT_TIMEOUT:
            timeout = self.default_timeout
        if timeout is None:
            return None
        return now() + max(0, timeout)

    def _live(self, key):
        ent = self._st.get(key)
        if ent is None:
            return None
        if ent[1] is not None and ent[1] <= now():
            del self._st[key]
            STATS["expired"] += 1
            return None
        return ent

    def add(self, key, value, timeout=DEFAULT_TIMEOUT, version=None):
        key = self.make_and_validate_key(key, version=version)
        if self._live(key) is not None:
            return False
        self._st[key] = (pickle.dumps(value), self._exp(timeout))
        return True

    def get(self, key, default=None, version=None):
        key = self.make_and_validate_key(key, version=version)
        STATS["get"] += 1
        ent = self._live(key)
        if ent is None:
            STATS["miss"] += 1
            return default
        STATS["hit"] += 1
        return pickle.loads(ent[0])

    def set(self, key, value, timeout=DEFAULT_TIMEOUT, version=None):
        key = self.make_and_validate_key(key, version=version)
        STATS["set"] += 1
        self._st[key] = (pickle.dumps(value), self._exp(timeout))

    def touch(self, key, timeout=DEFAULT_TIMEOUT, version=None):
        key = self.make_and_validate_key(key, version=version)
        ent = self._live(key)
        if ent is None:
            return False
        self._st[key] = (ent[0], self._exp(timeout))
        return True

    def delete(self, key, version=None):
        key = self.make_and_validate_key(key, version=version)
        return self._st.pop(key, None) is not None

    def has_key(self, key, version=None):
        key = self.make_and_validate_key(key, version=version)
        return self._live(key) is not None

    def clear(self):
        self._st.clear()
