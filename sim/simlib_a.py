"""Template tag library 'simlib_a': defines the filter `label` (the library 'simlib_b' defines it differently)."""
from django import template

register = template.Library()


@register.filter(name="label")
def label(value):
    return "[a:%s]" % value
