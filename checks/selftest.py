"""Determinism self-test: the same run indices executed twice (different zygotes, different worker counts)
must produce identical event-log digests; a third pass shifts the PYTHONHASHSEED assignment and reports how
many digests change (informational: the hash seed is part of the run identity).

  python -m checks.selftest <ID> [n_runs]
exit 0 = deterministic, 2 = mismatch (harness defect: nothing the check reports could be trusted)
"""
import json
import os
import sys

HERE = os.path.dirname(os.path.abspath(__file__))
sys.path.insert(0, os.path.dirname(HERE))
from checks.specs import SPECS  # noqa: E402
from sim import runner  # noqa: E402


def main():
    prop = sys.argv[1]
    n = int(sys.argv[2]) if len(sys.argv) > 2 else 600
    seed = int(os.environ.get("VERIF_SEED", 20260926))
    bad = 0
    report = {}
    for part in SPECS[prop]["parts"]("quick"):
        a = runner.explore(prop, part["engine"], part["params"], seed, n, workers=16, digests=True,
                           per_fork=part.get("per_fork", 1), wall_s=600)
        b = runner.explore(prop, part["engine"], part["params"], seed, n, workers=3, digests=True,
                           per_fork=1, wall_s=600)
        diff = [i for i in a["digests"] if a["digests"][i] != b["digests"].get(i)]
        report[part["engine"]] = {"runs": len(a["digests"]), "mismatches": len(diff), "examples": diff[:5]}
        bad += len(diff)
        if len(a["digests"]) != n or len(b["digests"]) != n:
            bad += 1
            report[part["engine"]]["missing"] = [len(a["digests"]), len(b["digests"])]
        # informational: same indices under other hash seeds
        old = runner.HASHSEEDS
        runner.HASHSEEDS = [7, 11, 13, 17]
        try:
            c = runner.explore(prop, part["engine"], part["params"], seed, min(n, 300), workers=16, digests=True,
                               per_fork=1, wall_s=600)
        finally:
            runner.HASHSEEDS = old
        changed = [i for i in c["digests"] if c["digests"][i] != a["digests"].get(i)]
        report[part["engine"]]["digests_changed_by_other_hashseeds"] = f"{len(changed)}/{len(c['digests'])}"
    print(json.dumps({"property": prop, "pairs_compared": n, "report": report}, indent=1))
    return 2 if bad else 0


if __name__ == "__main__":
    sys.exit(main())
