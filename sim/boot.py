"""Boot Django + django-components inside a zygote (once per process, before any fork).

The library is imported from $DJC_SRC (mutation audit on scratch copies) or /repo/src, i.e.
always from the current working tree; nothing is built or cached.
"""
import os
import sys

DJC_SRC = os.environ.get("DJC_SRC", "/repo/src")
VERIF_DIR = os.path.dirname(os.path.dirname(os.path.abspath(__file__)))
_booted = False


def boot():
    global _booted
    if _booted:
        return
    _booted = True
    # library under test first on sys.path (beats the editable install of /repo, which is the same tree)
    if DJC_SRC not in sys.path:
        sys.path.insert(0, DJC_SRC)
    if VERIF_DIR not in sys.path:
        sys.path.insert(0, VERIF_DIR)
    sys.setrecursionlimit(1000)

    import django
    from django.conf import settings

    settings.configure(
        BASE_DIR=os.path.join(VERIF_DIR, "sim", "_nobase"),
        DEBUG=False,
        INSTALLED_APPS=("django_components",),
        TEMPLATES=[
            {
                "BACKEND": "django.template.backends.django.DjangoTemplates",
                "DIRS": [],
                "APP_DIRS": False,
                "OPTIONS": {
                    "builtins": [
                        "django_components.templatetags.component_tags",
                        "sim.simtags",
                    ],
                    "loaders": [("django.template.loaders.locmem.Loader", {})],
                    # two libraries for {% load %} that define the SAME filter name differently (C18 part B)
                    "libraries": {"simlib_a": "sim.simlib_a", "simlib_b": "sim.simlib_b"},
                },
            }
        ],
        COMPONENTS={"autodiscover": False, "dirs": [], "app_dirs": [], "template_cache_size": 128},
        MIDDLEWARE=["django_components.middleware.ComponentDependencyMiddleware"],
        DATABASES={},
        SECRET_KEY="sim",
        ROOT_URLCONF="django_components.urls",
        STATIC_URL="/static/",
        ALLOWED_HOSTS=["*"],
        USE_TZ=True,
        CACHES={
            "default": {"BACKEND": "django.core.cache.backends.locmem.LocMemCache", "LOCATION": "default"},
            "sim": {"BACKEND": "sim.simcache.SimCache", "LOCATION": "sim", "TIMEOUT": None},
            "sim-ttl": {"BACKEND": "sim.simcache.SimCache", "LOCATION": "simttl", "TIMEOUT": 300},
            "locmem-ttl": {
                "BACKEND": "django.core.cache.backends.locmem.LocMemCache",
                "LOCATION": "locmemttl",
                "TIMEOUT": 300,
            },
        },
        LOGGING_CONFIG=None,
    )
    django.setup()

    import django_components  # noqa: F401

    src = os.path.realpath(os.path.dirname(os.path.dirname(django_components.__file__)))
    if src != os.path.realpath(DJC_SRC):
        raise RuntimeError(f"django_components imported from {src}, expected {DJC_SRC}")

    # Pre-import everything the library imports lazily, so that no run pays (or is perturbed by) an import.
    import django.core.cache.backends.locmem  # noqa: F401
    import django.template.loader_tags  # noqa: F401
    import django.template.defaulttags  # noqa: F401
    import django.template.defaultfilters  # noqa: F401
    import django.test  # noqa: F401
    import django.test.client  # noqa: F401
    import django.urls  # noqa: F401
    import django.contrib.staticfiles.finders  # noqa: F401
    import django_components.cache  # noqa: F401
    import django_components.component  # noqa: F401
    import django_components.component_media  # noqa: F401
    import django_components.component_registry  # noqa: F401
    import django_components.components.dynamic  # noqa: F401
    import django_components.dependencies  # noqa: F401
    import django_components.finders  # noqa: F401
    import django_components.middleware  # noqa: F401
    import django_components.perfutil.component  # noqa: F401
    import django_components.perfutil.provide  # noqa: F401
    import django_components.provide  # noqa: F401
    import django_components.slots  # noqa: F401
    import django_components.template  # noqa: F401
    import django_components.templatetags.component_tags  # noqa: F401
    import django_components.urls  # noqa: F401
    import django_components.util.cache  # noqa: F401
    import django_components.util.loader  # noqa: F401
    import djc_core_html_parser  # noqa: F401
    import sim.simcache  # noqa: F401
    import sim.generated  # noqa: F401
    import sim.simtags  # noqa: F401
    from django.template import engines

    engines["django"]  # instantiate the engine (and its builtins) once
    from django.urls import get_resolver

    get_resolver().url_patterns  # populate the resolver

    # touch the default registry's lazily created library / settings
    from django_components.component_registry import registry

    registry.library
    registry.settings
    # Warm the *compile* path only (Django's lazily compiled regexes, parser lru_caches); nothing is rendered,
    # so the per-render registries and caches of the library are untouched.
    from django.template import Template

    Template(
        '{% load component_tags %}{% component "warm" a=b c="d" only %}{% fill "x" data="d" default="e" %}'
        '{{ v|vf:"s"|default:"z" }}{% endfill %}{% for i in l %}{% fill name=i %}{% endfill %}{% endfor %}'
        '{% endcomponent %}{% component "warm" / %}{% slot "x" default required k=v %}{% endslot %}{% slot "y" / %}'
        '{% provide "k" a=b %}{% if a %}{% else %}{% endif %}{% with a=b %}{% endwith %}{% endprovide %}'
        '{% vfault "s" %}{{ component_vars.is_filled.x }}{% component_js_dependencies %}'
        '{% component_css_dependencies %}{% html_attrs attrs class="x" %}<div data-e="1"></div>'
    )
    import django_components.cache as _djc_cache

    _djc_cache.template_cache = None
    import gc

    gc.collect()
    gc.disable()
