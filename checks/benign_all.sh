#!/bin/bash
# Every behaviour-preserving patch under seeded/benign against every check (reduced run counts).
# Usage: checks/benign_all.sh [frac] [props|-] [patch ids...]
frac=${1:-8}; props=${2:--}; shift; shift
ids=${@:-$(ls seeded/benign | grep '^b')}
for id in $ids; do
  d=seeded/benign/$id
  echo "== $d"
  if [ "$props" != "-" ]; then /venv/bin/python -m checks.benign $d/patch.diff --frac $frac --props $props | tail -1
  else /venv/bin/python -m checks.benign $d/patch.diff --frac $frac | tail -1; fi
done
