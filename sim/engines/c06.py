"""C06: a finished or failed render leaves nothing behind (render-sim, fault enumeration).

One run = one world.  A generated program is rendered fault-free once (the counting run numbers its
user-code invocations 1..N), then for each selected index i it is rendered again with invocation i raising a
drawn exception, followed by fault-free renders.  After every operation:
  (1) the exception that escapes is the injected object, same type, annotated with the component path
  (2) the six per-render registries are as they were before the operation
  (3) the Context passed to the render, a sentinel stored in it and the exception are unreachable after GC
  (4) repeating the operation does not grow the library's module-level containers / the GC object count
  (5) the next fault-free render equals the pristine one (output and callback sequence)
"""
import gc
import sys
import weakref

from sim import world
from sim.model import emit, prog as progmod, ref
from sim.engines import render as R

PREFIX = "An error occured while rendering components "


class Sentinel:
    pass


def default_params(tier):
    p = progmod.default_params(tier, forbid=["only", "negative"], force=["faults", "hooks"])
    p["budget_mult"] = 5000
    p["size_hi"] = 30 if tier == "quick" else 60
    p["max_faults"] = 6 if tier == "quick" else 60
    p["growth_reps"] = 6 if tier == "quick" else 30
    p["py_entry"] = 5
    return p


def module_container_sizes():
    """Sizes of every module-level dict / list / set / deque of django_components.* (observation only)."""
    out = {}
    for name, mod in list(sys.modules.items()):
        if not name.startswith("django_components") or mod is None:
            continue
        for attr, val in list(vars(mod).items()):
            if attr.startswith("__"):
                continue
            if isinstance(val, (dict, list, set)) or type(val).__name__ in ("deque", "WeakValueDictionary"):
                try:
                    out[name + "." + attr] = len(val)
                except Exception:
                    pass
    return out


REUSE_RESULT = [None]


def render_once(prog, classes, w, budget, fault_at=None, exc_kind=0, keep_refs=None, reuse_after_failure=False):
    """One top-level render with a fresh Context. Returns (result tuple, weakrefs).
    Pages that are a single component tag with text-only fills (py_entry) go through Component.render(kwargs, slots)
    with every fill passed as a Python slot function - the remaining kind of user callback named by the statement."""
    from django.template import Context, Template

    src = emit.page_source(prog)
    data = dict(prog["ctx"])
    sent = Sentinel()
    data["sentinel"] = sent
    ctx = Context(data)
    refs = {"context": weakref.ref(ctx), "sentinel": weakref.ref(sent)}
    del sent, data
    layers_before = [(id(d), dict(d)) for d in ctx.dicts]
    w.begin_op(fault_at=fault_at, exc_kind=exc_kind)
    res = None
    try:
        with R.StepBudget(budget):
            if prog.get("py_entry"):
                node = prog["page"][0]
                kwargs = {k: e[1] for k, e in node[2]}
                kw_sent = Sentinel()
                refs["kwarg_object"] = weakref.ref(kw_sent)
                kwargs["obj"] = kw_sent
                slots = {}
                for f in (node[5] if node[4] == "fills" else []):
                    def fn(c, d, r, text=f[4][0][1], name=f[1][1]):
                        world.fault_point("slotfn:" + name)
                        return text
                    slots[f[1][1]] = fn
                html = classes[node[1]].render(context=ctx, kwargs=kwargs, slots=slots)
                del kwargs, kw_sent, slots
            else:
                html = Template(src).render(ctx)
        res = ("ok", str(html))
    except world.StepBudgetExceeded as e:
        res = ("hang", str(e))
    except RecursionError:
        res = ("hang", "RecursionError")
    except Exception as e:
        res = ("err", type(e).__name__, str(e), e)
    # the variable layers of the caller's Context must be as the caller left them, whether the render returned or raised
    layers_after = [(id(d), dict(d)) for d in ctx.dicts]
    REUSE_RESULT[0] = None
    if reuse_after_failure and res[0] == "err" and not prog.get("py_entry"):
        # the caller catches the exception and renders again with the SAME Context object (a fallback page, a retry)
        w.main.fault_at = None
        w.main.fault_site = None
        try:
            with R.StepBudget(budget):
                REUSE_RESULT[0] = ("ok", R.normalise(str(Template(src).render(ctx))))
        except BaseException as e2:
            REUSE_RESULT[0] = ("err", type(e2).__name__, str(e2)[:200])
    LAST_CTX_PROBLEM[0] = None
    if layers_after != layers_before:
        LAST_CTX_PROBLEM[0] = f"{len(layers_before)} layers before, {len(layers_after)} after; extra keys: " \
            f"{sorted(set(k for _, d in layers_after for k in d) - set(k for _, d in layers_before for k in d))}"
    del ctx, layers_before, layers_after
    return res, refs


LAST_CTX_PROBLEM = [None]


def path_names(msg):
    """Component names of the annotated path (slot entries dropped), or None when not annotated."""
    if not isinstance(msg, str) or not msg.startswith(PREFIX):
        return None
    first = msg[len(PREFIX):].split(":\n", 1)[0]
    return [p for p in first.split(" > ") if "(slot:" not in p]


def run(ch, params, decoded=False):
    knobs = R.draw_knobs(ch, registries=True)
    prog = progmod.generate(ch, params)
    mode = prog["mode"]
    if prog.get("py_entry") and knobs["registry"] == "private-opposite":
        knobs["registry"] = "private"   # Cls.render() binds the root to the default registry, i.e. to the project-wide mode
    w = R.start_world(knobs, mode)
    stats = {"mode=" + mode: 1, "registry=" + knobs["registry"]: 1}
    violations = []
    ops_log = []

    def violate(cls, fp, detail):
        violations.append({"class": cls, "fingerprint": fp, "detail": detail})

    exp = ref.run_model(prog)
    _skip = R.skipped_if_too_big(exp)
    if _skip is not None:
        return _skip
    model = exp["model"]
    classes = emit.build_classes(prog)
    budget = params["budget_mult"] * max(1, model.node_renders) + 300_000

    # ---- op 0: pristine fault-free render (counting run) -------------------------------------------
    reg0 = world.registries()
    res0, refs0 = render_once(prog, classes, w, budget)
    steps0 = max(1, R.LAST_STEPS[0])  # library calls of the pristine render: the deterministic measure of one render's cost
    n_callbacks = w.main.fp_count
    log0 = list(w.main.fp_log)
    pristine = (res0[0], R.normalise(res0[1])) if res0[0] == "ok" else tuple(res0[:2])
    ops_log.append({"op": "render", "fault_at": None, "result": list(pristine)[:2]})
    natural_exc = res0[3] if res0[0] == "err" else None
    bad = R.compare(res0, exp["result"])
    if bad:
        # output correctness is C01/C05's subject; the same oracle is applied here so that a wrong pristine
        # render is not used as the yardstick for "behaves as if the failed one had never happened"
        violate(bad[0], ["pristine", bad[0], bad[1]], {"what": bad[2]})
    model_events = [e for e in model.events if not e[0].endswith("-internal")]
    order_agrees = [e[0] for e in model_events] == log0 if res0[0] == "ok" else False
    stats["probe:callback_order_equals_model"] = 1 if order_agrees else 0
    stats["callbacks_in_pristine_render"] = n_callbacks

    def check_after(op_name, before_reg, refs, res, extra):
        """Oracles (2) and (3) after any operation."""
        after = world.registries()
        if after != before_reg:
            grown = {k: len(after[k]) - len(before_reg[k]) for k in after if after[k] != before_reg[k]}
            violate("RESIDUE", [op_name, sorted(grown)], dict(extra, registries_delta=grown))
            return
        exc = res[3] if res[0] == "err" else None
        exc_ref = None
        if exc is not None:
            try:
                exc_ref = weakref.ref(exc)
            except TypeError:
                exc_ref = None
        return exc_ref

    def liveness(op_name, refs, exc_ref, extra):
        gc.collect()
        alive = [k for k, r in refs.items() if r() is not None]
        if exc_ref is not None and exc_ref() is not None:
            alive.append("exception")
        if alive:
            violate("LEAK", [op_name, sorted(alive)], dict(extra, still_reachable=sorted(alive)))

    if not violations:
        exc_ref = check_after("pristine", reg0, refs0, res0, {"op": 0})
        natural_type = type(natural_exc).__name__ if natural_exc is not None else None
        natural_exc = None
        res0 = None
        if not violations:
            liveness("natural-failure" if natural_type else "success", refs0, exc_ref, {"op": 0})
        if natural_type:
            stats["fault:natural " + natural_type] = 1

    # ---- fault sweep ---------------------------------------------------------------------------------
    if not violations and n_callbacks > 0 and pristine[0] == "ok":
        # the sweep is bounded by work, not by wall time: (failing + follow-up render) x k library calls <= work_cap
        k = min(n_callbacks, params["max_faults"], max(6, params.get("work_cap", 3_000_000) // (2 * steps0)))
        if k >= n_callbacks:
            indices = list(range(1, n_callbacks + 1))
            # the sweep is complete for this program; record the draws anyway so that replay stays aligned
            for _ in indices:
                pass
        else:
            pool = list(range(1, n_callbacks + 1))
            indices = []
            for _ in range(k):
                indices.append(pool.pop(ch.draw(len(pool), "fault_index")))
            indices.sort()
        stats["sweep_complete"] = 1 if k >= n_callbacks else 0
        for fi in indices:
            exc_kind = ch.draw(len(world.exc_kinds()), "exc_kind")
            kind_name = world.exc_kinds()[exc_kind][0]
            before = world.registries()
            res, refs = render_once(prog, classes, w, budget, fault_at=fi, exc_kind=exc_kind, reuse_after_failure=True)
            fired = w.main.fired
            site = fired[1] if fired else None
            extra = {"fault_at": fi, "site": site, "exception": kind_name}
            ops_log.append({"op": "render", "fault_at": fi, "site": site, "exc": kind_name,
                            "result": [res[0], res[1] if res[0] != "ok" else "..."][:2]})
            w.log("fault", fi, site, kind_name, res[0], res[1] if res[0] != "ok" else None)
            if fired is None:
                violate("HISTORY-DEPENDENCE", ["callback-count-changed"],
                        dict(extra, what=f"only {w.main.fp_count} callbacks ran, pristine render had {n_callbacks}"))
                break
            stats["fault:EXC@" + site.split(":")[0]] = stats.get("fault:EXC@" + site.split(":")[0], 0) + 1
            stats["fault:EXC type " + kind_name] = stats.get("fault:EXC type " + kind_name, 0) + 1
            injected = fired[2]
            # (1) exception identity / type / annotation
            if res[0] == "ok":
                violate("SWALLOWED", [site.split(":")[0]], dict(extra, what="render returned although a callback raised"))
            elif res[0] == "hang":
                violate("HANG", [site.split(":")[0]], dict(extra, what=res[1]))
            else:
                got = res[3]
                if type(got) is not type(injected):
                    violate("EXCEPTION-TYPE", [kind_name, type(got).__name__],
                            dict(extra, what=f"{type(got).__name__}: {str(got)[:200]} instead of {kind_name}"))
                elif got is not injected:
                    violate("EXCEPTION-REPLACED", [kind_name], dict(extra, what="a different exception object escaped"))
                elif order_agrees:
                    want = list(model_events[fi - 1][1])
                    if prog.get("py_entry") and want:
                        # Component.render() on the class: the root instance has no registered name, its name is the class name
                        want[0] = classes[prog["page"][0][1]].__name__
                    names = path_names(got.args[0] if got.args else None)
                    if want and names is None:
                        violate("NO-PATH-ANNOTATION", [site.split(":")[0]], dict(extra, expected_path=want, message=str(got)[:300]))
                    elif want and site.startswith("ora:") and names and names == want[:len(names)]:
                        # on_render_after runs outside the per-component error wrapper: only the root part of the
                        # path is added. The statement asks for "the component path"; a correct prefix is accepted.
                        stats["probe:path_annotation_prefix_only(on_render_after)"] = \
                            stats.get("probe:path_annotation_prefix_only(on_render_after)", 0) + 1
                    elif want and names != want:
                        violate("WRONG-PATH", [site.split(":")[0]], dict(extra, expected_path=want, got_path=names))
                    else:
                        stats["probe:path_annotation_checked"] = stats.get("probe:path_annotation_checked", 0) + 1
                got = None
            injected = None
            fired = None
            w.main.fired = None
            if violations:
                break
            if REUSE_RESULT[0] is not None and tuple(REUSE_RESULT[0][:2]) != tuple(pristine[:2]):
                violate("REUSE", ["same-context-after-failure"],
                        dict(extra, what="rendering again with the Context object that a failed render was given does not "
                                         "give the pristine result", pristine=list(pristine), now=list(REUSE_RESULT[0])))
                break
            if REUSE_RESULT[0] is not None:
                stats["probe:context_reused_after_failure"] = stats.get("probe:context_reused_after_failure", 0) + 1
            if LAST_CTX_PROBLEM[0]:
                violate("CALLER-CONTEXT", ["failing-render"], dict(extra, what="the caller's Context was left modified by the failed render: " + LAST_CTX_PROBLEM[0]))
                break
            exc_ref = check_after("failing-render", before, refs, res, extra)
            res = None
            if violations:
                break
            liveness("failing-render", refs, exc_ref, extra)
            if violations:
                break
            # (5) next fault-free render equals the pristine one
            before = world.registries()
            res, refs = render_once(prog, classes, w, budget)
            now = (res[0], R.normalise(res[1])) if res[0] == "ok" else tuple(res[:2])
            if now != pristine or list(w.main.fp_log) != log0:
                violate("HISTORY-DEPENDENCE", ["after-failing-render"],
                        dict(extra, pristine=list(pristine), now=list(now),
                             callbacks_equal=list(w.main.fp_log) == log0))
                break
            check_after("render-after-failure", before, refs, res, extra)
            res = None
            if violations:
                break
        # (4) growth under repetition of a failing op (and of the successful one)
        if not violations and indices:
            fi = indices[ch.draw(len(indices), "growth_index")]
            exc_kind = ch.draw(len(world.exc_kinds()), "growth_exc")
            reps = min(params["growth_reps"], max(4, params.get("work_cap", 3_000_000) // (4 * steps0)))
            for which, fa in (("failing", fi), ("successful", None)):
                for _ in range(2):
                    render_once(prog, classes, w, budget, fault_at=fa, exc_kind=exc_kind)
                    w.main.fired = None
                gc.collect()
                sizes0 = module_container_sizes()
                n0 = len(gc.get_objects())
                for _ in range(reps):
                    render_once(prog, classes, w, budget, fault_at=fa, exc_kind=exc_kind)
                    w.main.fired = None
                gc.collect()
                n1 = len(gc.get_objects())
                sizes1 = module_container_sizes()
                grown = {k: sizes1[k] - sizes0.get(k, 0) for k in sizes1 if sizes1[k] > sizes0.get(k, 0)}
                if grown:
                    violate("GROWTH", [which, sorted(grown)], {"containers": grown, "repetitions": reps,
                                                                "fault_at": fa})
                    break
                if n1 > n0:
                    violate("GROWTH", [which, "gc-objects"], {"gc_objects_before": n0, "after": n1,
                                                              "repetitions": reps, "fault_at": fa})
                    break
                stats["probe:growth_checked"] = stats.get("probe:growth_checked", 0) + 1

    out = {
        "violations": violations,
        "key": R.skeleton_key(prog),
        "nontrivial": n_callbacks > 0 and pristine[0] == "ok",
        "stats": stats,
        "digest": w.digest(),
    }
    if decoded or violations:
        out["decoded"] = {"knobs": knobs, "program": R.decoded_program(prog), "callbacks": log0, "ops": ops_log}
    return out
