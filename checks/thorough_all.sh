#!/bin/bash
# Thorough tier of every claimed property, one after the other (vp run -- checks/thorough_all.sh)
for p in ${@:-C15 C18 C16 C19 C14 C04 C05 C01 C03 C06 C07}; do
  /venv/bin/python -m checks.run $p --tier thorough | grep -v "^  class\|KNOWN-FINDING" | tail -4
done
