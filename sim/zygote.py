"""Zygote process: boots Django + the library once, then forks one child per simulated run.

Started by sim/runner.py as `python -m sim.zygote` with an explicit PYTHONHASHSEED.  Speaks
JSON lines on stdin/stdout:

  {"cmd":"batch", "engine":..., "params":{...}, "prop":..., "seed":..., "indices":[start,stop,step],
   "wall_s":..., "run_timeout_s":...}                 -> one summary object
  {"cmd":"one", "engine":..., "params":{...}, "draws":[...]|null, "run_seed":..., "decoded":true} -> one result object
  {"cmd":"quit"}

Every run executes in a forked child of the *unused* zygote image, so each run starts from a
bit-identical state (DESIGN.md 3.2).
"""
import importlib
import json
import os
import select
import signal
import sys
import time
import traceback


def _child_main(fn, wfd):
    try:
        try:
            res = fn()
        except BaseException as e:  # harness failure inside the run
            res = {"harness_error": f"{type(e).__name__}: {e}", "traceback": traceback.format_exc()[-4000:]}
        data = json.dumps(res, default=repr).encode()
    except BaseException as e:  # pragma: no cover
        data = json.dumps({"harness_error": f"serialise: {e!r}"}).encode()
    try:
        mv = memoryview(data)
        while mv:
            n = os.write(wfd, mv)
            mv = mv[n:]
    finally:
        os._exit(0)


def fork_run(fn, timeout_s=60.0):
    """Run fn() in a forked child; returns its JSON result, or a harness_error dict."""
    rfd, wfd = os.pipe()
    sys.stdout.flush()
    sys.stderr.flush()
    pid = os.fork()
    if pid == 0:
        os.close(rfd)
        # a child must never talk on the zygote's protocol channel
        devnull = os.open(os.devnull, os.O_RDWR)
        os.dup2(devnull, 0)
        os.dup2(2, 1)
        _child_main(fn, wfd)
    os.close(wfd)
    chunks = []
    deadline = time.monotonic() + timeout_s
    timed_out = False
    while True:
        left = deadline - time.monotonic()
        if left <= 0:
            timed_out = True
            break
        r, _, _ = select.select([rfd], [], [], left)
        if not r:
            timed_out = True
            break
        b = os.read(rfd, 1 << 16)
        if not b:
            break
        chunks.append(b)
    os.close(rfd)
    if timed_out:
        try:
            os.kill(pid, signal.SIGKILL)
        except ProcessLookupError:
            pass
    _, status = os.waitpid(pid, 0)
    if timed_out:
        return {"harness_error": f"HARNESS-TIMEOUT after {timeout_s}s"}
    raw = b"".join(chunks)
    if not raw:
        return {"harness_error": f"CHILD-DIED status={status}"}
    try:
        return json.loads(raw)
    except Exception as e:
        return {"harness_error": f"bad child output: {e!r}"}


def _get_engine(name):
    return importlib.import_module("sim.engines." + name)


def run_one(engine_name, params, run_seed=None, draws=None, decoded=False, timeout_s=60.0):
    from sim.choices import Choices

    eng = _get_engine(engine_name)

    def fn():
        ch = Choices(seed=run_seed, prefix=draws)
        res = eng.run(ch, dict(params), decoded=decoded)
        res["draws"] = ch.draws
        return res

    return fork_run(fn, timeout_s)


def batch(cmd):
    from sim.choices import derive_seed

    engine_name = cmd["engine"]
    params = cmd["params"]
    prop = cmd["prop"]
    seed = cmd["seed"]
    start, stop, step = cmd["indices"]
    wall_s = cmd.get("wall_s", 1e9)
    run_timeout = cmd.get("run_timeout_s", 60.0)
    per_fork = max(1, int(cmd.get("per_fork", 1)))
    t0 = time.monotonic()
    summ = {
        "runs": 0,
        "stats": {},
        "keys": {},
        "violations": [],
        "harness_errors": [],
        "samples": [],
        "first_index": None,
        "last_index": None,
        "stopped_early": False,
        "digests": {},
    }
    want_digests = bool(cmd.get("digests"))
    n_samples = int(cmd.get("samples", 2))
    eng = _get_engine(engine_name)
    idx = start
    while idx < stop:
        if time.monotonic() - t0 > wall_s:
            summ["stopped_early"] = True
            break
        group = []
        while idx < stop and len(group) < per_fork:
            group.append(idx)
            idx += step

        def fn(group=group):
            from sim.choices import Choices

            out = []
            for i in group:
                rs = derive_seed(seed, prop, i)
                ch = Choices(seed=rs)
                ch.index, ch.base_seed = i, seed
                want_dec = (i - start) // step < n_samples
                res = eng.run(ch, dict(params), decoded=want_dec)
                res["draws"] = ch.draws if (res.get("violations") or want_dec) else None
                res["n_draws"] = len(ch.draws)
                res["index"] = i
                res["run_seed"] = rs
                out.append(res)
            return {"group": out}

        res = fork_run(fn, run_timeout * len(group))
        if "harness_error" in res:
            summ["harness_errors"].append({"indices": group, "error": res["harness_error"], "traceback": res.get("traceback")})
            summ["runs"] += len(group)
            continue
        for r in res["group"]:
            summ["runs"] += 1
            i = r["index"]
            if summ["first_index"] is None:
                summ["first_index"] = i
            summ["last_index"] = i
            for k, v in (r.get("stats") or {}).items():
                summ["stats"][k] = summ["stats"].get(k, 0) + v
            key = r.get("key")
            if key is not None:
                ent = summ["keys"].get(key)
                nt = 1 if r.get("nontrivial") else 0
                summ["keys"][key] = max(ent or 0, nt)
            if want_digests:
                summ["digests"][str(i)] = r.get("digest")
            if r.get("violations"):
                for v in r["violations"]:
                    summ["violations"].append(
                        {
                            "index": i,
                            "run_seed": r["run_seed"],
                            "draws": r["draws"],
                            "class": v.get("class"),
                            "fingerprint": v.get("fingerprint"),
                            "detail": v.get("detail"),
                            "known": v.get("known"),
                        }
                    )
            if r.get("decoded") is not None and len(summ["samples"]) < n_samples:
                summ["samples"].append({"index": i, "run_seed": r["run_seed"], "case": r["decoded"]})
    summ["wall_s"] = round(time.monotonic() - t0, 3)
    return summ


def main():
    sys.path.insert(0, os.path.dirname(os.path.dirname(os.path.abspath(__file__))))
    from sim import boot

    try:
        boot.boot()
    except BaseException:
        sys.stdout.write(json.dumps({"boot_error": traceback.format_exc()}) + "\n")
        sys.stdout.flush()
        return 2
    sys.stdout.write(json.dumps({"ready": True, "hashseed": os.environ.get("PYTHONHASHSEED")}) + "\n")
    sys.stdout.flush()
    for line in sys.stdin:
        line = line.strip()
        if not line:
            continue
        cmd = json.loads(line)
        try:
            if cmd["cmd"] == "quit":
                break
            elif cmd["cmd"] == "batch":
                out = batch(cmd)
            elif cmd["cmd"] == "one":
                out = run_one(
                    cmd["engine"],
                    cmd["params"],
                    run_seed=cmd.get("run_seed"),
                    draws=cmd.get("draws"),
                    decoded=cmd.get("decoded", False),
                    timeout_s=cmd.get("run_timeout_s", 60.0),
                )
            else:
                out = {"error": "unknown cmd"}
        except BaseException:
            out = {"zygote_error": traceback.format_exc()}
        sys.stdout.write(json.dumps(out, default=repr) + "\n")
        sys.stdout.flush()
    return 0


if __name__ == "__main__":
    sys.exit(main())
