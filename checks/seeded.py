"""Confirm a sub-agent's seeded change and run the checks against it.

  python -m checks.seeded <PROP> <N> [--checks C01,C06] [--runs N]

Reads /tmp/seed-out/<PROP>/<N>/{patch.diff,demo.py,notes.md}; in a scratch worktree of /repo (outside /repo and /verif,
removed afterwards) confirms: patch applies; demo passes without / fails with the change; the pinned suite still passes
with it. Then runs the named checks (default: the property's own) against the patch through checks.audit and stores
everything as /verif/seeded/<PROP>-<N>/ (patch.diff, demo.py, notes.md, meta.json).
"""
import argparse
import json
import os
import shutil
import subprocess
import sys
import tempfile

ap = argparse.ArgumentParser()
ap.add_argument("prop")
ap.add_argument("n")
ap.add_argument("--checks")
ap.add_argument("--runs")
ap.add_argument("--tier", default="quick")
ap.add_argument("--skip-suite", action="store_true")
a = ap.parse_args()
VERIF = os.path.dirname(os.path.dirname(os.path.abspath(__file__)))
src = f"/tmp/seed-out/{a.prop}/{a.n}"
dst = os.path.join(VERIF, "seeded", f"{a.prop}-{a.n}")
os.makedirs(dst, exist_ok=True)
for f in ("patch.diff", "demo.py", "notes.md"):
    if os.path.exists(os.path.join(src, f)) and not os.path.exists(os.path.join(dst, f)):
        shutil.copy(os.path.join(src, f), os.path.join(dst, f))
patch = os.path.join(dst, "patch.diff")
demo = os.path.join(dst, "demo.py")
wt = tempfile.mkdtemp(prefix="djc-seedverify-")
os.rmdir(wt)
meta = {"property": a.prop.rstrip("bcdef"), "source": "independent sub-agent given only the property text and a scratch worktree",
        "repo_head": subprocess.run(["git", "-C", "/repo", "rev-parse", "HEAD"], capture_output=True, text=True).stdout.strip()}


def run(cmd, **kw):
    return subprocess.run(cmd, capture_output=True, text=True, **kw)


try:
    r = run(["git", "-C", "/repo", "worktree", "add", "-q", "--detach", wt, "HEAD"])
    assert r.returncode == 0, r.stderr
    env = dict(os.environ, PYTHONPATH=os.path.join(wt, "src"))
    env.pop("DJC_SRC", None)
    d0 = run(["/venv/bin/python", demo], cwd=wt, env=env, timeout=600)
    meta["demo_without_change_exit"] = d0.returncode
    r = run(["git", "-C", wt, "apply", patch])
    meta["patch_applies"] = r.returncode == 0
    if r.returncode != 0:
        meta["patch_error"] = r.stderr[-500:]
    else:
        d1 = run(["/venv/bin/python", demo], cwd=wt, env=env, timeout=600)
        meta["demo_with_change_exit"] = d1.returncode
        meta["demo_with_change_tail"] = (d1.stdout + d1.stderr)[-600:]
        if not a.skip_suite:
            s = run(["/venv/bin/python", "-m", "checks.baseline", wt], cwd=VERIF)
            meta["suite_with_change"] = s.stdout.strip().splitlines()[:3]
            meta["suite_passes_with_change"] = s.returncode == 0
finally:
    subprocess.run(["git", "-C", "/repo", "worktree", "remove", "--force", wt], capture_output=True)
    shutil.rmtree(wt, ignore_errors=True)

meta["confirmed"] = bool(meta.get("patch_applies") and meta.get("demo_without_change_exit") == 0
                         and meta.get("demo_with_change_exit") not in (0, None)
                         and (a.skip_suite or meta.get("suite_passes_with_change")))
results = {}
for chk in (a.checks.split(",") if a.checks else [a.prop.rstrip("bcdef")]):
    cmd = ["/venv/bin/python", "-m", "checks.audit", patch, chk, "--tier", a.tier]
    if a.runs:
        cmd += ["--runs", a.runs]
    rp = tempfile.mkdtemp(prefix="djc-seedrp-")
    r = run(cmd, cwd=VERIF, env=dict(os.environ, VERIF_REPLAY_DIR=rp))
    lines = [l for l in r.stdout.splitlines() if l.startswith(("VIOLATION", "  class=", chk + " tier"))]
    results[chk] = {"exit": r.returncode, "detected": r.returncode == 1, "output": lines[:6], "runs": a.runs or "tier default"}
    shutil.rmtree(rp, ignore_errors=True)
meta["checks_run"] = results
old = {}
if os.path.exists(os.path.join(dst, "meta.json")):
    old = json.load(open(os.path.join(dst, "meta.json")))
    prev = old.get("checks_run", {})
    prev.update(results)
    meta["checks_run"] = prev
    for k in ("needs_to_manifest", "summary", "comment"):
        if k in old:
            meta[k] = old[k]
    if a.skip_suite:
        for k in ("suite_with_change", "suite_passes_with_change"):
            if k in old:
                meta[k] = old[k]
json.dump(meta, open(os.path.join(dst, "meta.json"), "w"), indent=1)
print(json.dumps(meta, indent=1))
