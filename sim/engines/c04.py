"""C04: exactly the JS/CSS of the rendered components is delivered, once, in order (render-sim, element mode + assets).

One run = one world with a drawn media-cache backend.  The same generated page is rendered 1-3 times through drawn
entry paths (render_dependencies on str / bytes, the middleware, Component.render; document / fragment), with
media-cache loss (clear / evict subset / TTL expiry on the virtual clock) and GC between the renders.
"""
import base64
import json
import re
from urllib.parse import unquote

from sim import world
from sim.model import emit, prog as progmod, ref
from sim.engines import render as R

SCRIPT_RE = re.compile(r"<script\b([^>]*)>(.*?)</script>", re.S)
STYLE_RE = re.compile(r"<style\b([^>]*)>(.*?)</style>", re.S)
LINK_RE = re.compile(r"<link\b([^>]*)>", re.S)
SRC_RE = re.compile(r'src="([^"]*)"')
HREF_RE = re.compile(r'href="([^"]*)"')
CORE_JS = "/static/django_components/django_components.min.js"


def static_url(f):
    """URL django.forms.Media gives a declared file: absolute paths / URLs stay, anything else goes under STATIC_URL."""
    return f if f.startswith(("http://", "https://", "/")) else "/static/" + f


def default_params(tier):
    p = progmod.default_params(tier, elems=True, assets=True, page_wrap=True,
                               forbid=["only", "provide", "inject_default", "negative", "aliases", "faults"])
    p["budget_mult"] = 5000
    p["py_entry"] = 8
    p["size_hi"] = 30 if tier == "quick" else 60
    p["includes"] = 8   # 1/8 of the elements / component tags sit in a partial pulled in with {% include %}
    return p


# ------------------------------------------------------------------------------------------------ expectations
def effective(cd, comps, attr):
    while cd is not None:
        if cd.get(attr) is not None:
            return cd[attr]
        cd = comps.get(cd.get("base"))
    return None


def media_files(cd, comps, kind):
    out = []
    seen = set()
    while cd is not None:
        own = cd.get("media_" + kind) or []
        if isinstance(own, dict):
            own = [f for files in own.values() for f in files]
        for f in own:
            if f not in seen:
                seen.add(f)
                out.append(f)
        has_media = bool(cd.get("media_js") or cd.get("media_css") or cd.get("media_extend") is False)
        if has_media and cd.get("media_extend") is False:
            break
        cd = comps.get(cd.get("base"))
    return out


def expectations(prog, model, stream):
    comps = {c["name"]: c for c in prog["comps"]}
    _, order = ref.stream_structure(stream)
    classes = []
    for idx in order:
        inst = model.insts[idx]
        if inst.comp is None:
            continue
        if inst.comp["name"] not in classes:
            classes.append(inst.comp["name"])
    js, css, mjs, mcss = [], [], [], []
    for name in classes:
        cd = comps[name]
        j = effective(cd, comps, "js")
        if j is not None and j.strip():
            js.append((name, j.strip()))
        c = effective(cd, comps, "css")
        if c is not None and c.strip():
            css.append((name, c.strip()))
        for f in media_files(cd, comps, "js"):
            if f not in mjs:
                mjs.append(f)
        for f in media_files(cd, comps, "css"):
            if f not in mcss:
                mcss.append(f)
    return {"classes": classes, "js": js, "css": css, "media_js": mjs, "media_css": mcss}


def parse_final(html):
    """Everything the dependency machinery may have put into the document."""
    inline_js, src_js, json_blocks, inline_css, links = [], [], [], [], []
    for m in SCRIPT_RE.finditer(html):
        attrs, body = m.group(1), m.group(2)
        s = SRC_RE.search(attrs)
        if "data-djc" in attrs and "application/json" in attrs:
            json_blocks.append(body)
        elif s:
            src_js.append(s.group(1))
        else:
            inline_js.append(body)
    for m in STYLE_RE.finditer(html):
        inline_css.append(m.group(2))
    for m in LINK_RE.finditer(html):
        h = HREF_RE.search(m.group(1))
        links.append(h.group(1) if h else m.group(0))
    rest = LINK_RE.sub("", STYLE_RE.sub("", SCRIPT_RE.sub("", html)))
    return {"inline_js": inline_js, "src_js": src_js, "json": json_blocks, "inline_css": inline_css,
            "links": links, "rest": rest}


def b64list(lst):
    # urls come from django.urls.reverse(), which percent-encodes non-ASCII class names
    return [unquote(base64.b64decode(x).decode()) for x in lst]


def check_document(final, exp, model_text, wrap, class_hash):
    p = parse_final(final)
    markers = [m for m in ("_RENDERED", "djc-render-id", "CSS_PLACEHOLDER", "JS_PLACEHOLDER") if m in final]
    if markers:
        return ("MARKER", f"bookkeeping marker(s) {markers} survive in the final HTML")
    rest = R.DJC_ID_RE.sub("", R.DATA_O_RE.sub("", p["rest"]))
    if rest != model_text:
        return ("OUTPUT", f"document text differs from the model: {rest[:300]!r} vs {model_text[:300]!r}")
    js_delivered = wrap in (1, 2, 3, 4, 5)
    css_delivered = wrap in (1, 2, 3, 5)
    want_js = [c for _, c in exp["js"]] if js_delivered else []
    want_css = [c for _, c in exp["css"]] if css_delivered else []
    if p["inline_js"] != want_js:
        return ("INLINE-JS", f"inline scripts {p['inline_js']!r}, expected {want_js!r} (classes {exp['classes']})")
    if p["inline_css"] != want_css:
        return ("INLINE-CSS", f"inline styles {p['inline_css']!r}, expected {want_css!r} (classes {exp['classes']})")
    want_src = sorted([static_url(f) for f in exp["media_js"]] + [CORE_JS]) if js_delivered else []
    if sorted(p["src_js"]) != want_src:
        return ("MEDIA-JS", f"script src {sorted(p['src_js'])}, expected {want_src}")
    want_links = sorted(static_url(f) for f in exp["media_css"]) if css_delivered else []
    if sorted(p["links"]) != want_links:
        return ("MEDIA-CSS", f"link href {sorted(p['links'])}, expected {want_links}")
    if js_delivered:
        if len(p["json"]) > 1:
            return ("MANIFEST", "more than one data-djc JSON block")
        data = json.loads(p["json"][0]) if p["json"] else {"loadedJsUrls": [], "loadedCssUrls": [], "toLoadJsTags": [], "toLoadCssTags": []}
        want_loaded_js = sorted(["/components/cache/%s.js" % class_hash[n] for n, _ in exp["js"]] + [static_url(f) for f in exp["media_js"]])
        want_loaded_css = sorted(["/components/cache/%s.css" % class_hash[n] for n, _ in exp["css"]] + [static_url(f) for f in exp["media_css"]])
        if sorted(b64list(data["loadedJsUrls"])) != want_loaded_js:
            return ("MANIFEST", f"loadedJsUrls {sorted(b64list(data['loadedJsUrls']))}, expected {want_loaded_js}")
        if sorted(b64list(data["loadedCssUrls"])) != want_loaded_css:
            return ("MANIFEST", f"loadedCssUrls {sorted(b64list(data['loadedCssUrls']))}, expected {want_loaded_css}")
        if data["toLoadJsTags"] or data["toLoadCssTags"]:
            return ("MANIFEST", "document mode asks the client to load tags")
    return None


def check_fragment(final, exp, model_text, class_hash):
    p = parse_final(final)
    markers = [m for m in ("_RENDERED", "djc-render-id", "CSS_PLACEHOLDER", "JS_PLACEHOLDER") if m in final]
    if markers:
        return ("MARKER", f"bookkeeping marker(s) {markers} survive in the final HTML")
    rest = R.DJC_ID_RE.sub("", R.DATA_O_RE.sub("", p["rest"]))
    if rest != model_text:
        return ("OUTPUT", f"fragment text differs from the model: {rest[:300]!r} vs {model_text[:300]!r}")
    if p["inline_js"] or p["inline_css"] or p["src_js"] or p["links"]:
        return ("FRAGMENT-INLINE", "fragment mode inlined scripts / styles / tags into the HTML")
    want_js = sorted(["/components/cache/%s.js" % class_hash[n] for n, _ in exp["js"]] + [static_url(f) for f in exp["media_js"]])
    want_css = sorted(["/components/cache/%s.css" % class_hash[n] for n, _ in exp["css"]] + [static_url(f) for f in exp["media_css"]])
    if not p["json"]:
        if want_js or want_css:
            return ("MANIFEST", "fragment declares nothing to the client-side loader")
        return None
    if len(p["json"]) > 1:
        return ("MANIFEST", "more than one data-djc JSON block")
    data = json.loads(p["json"][0])
    got_js = sorted(SRC_RE.search(t).group(1) if SRC_RE.search(t) else t for t in b64list(data["toLoadJsTags"]))
    got_css = sorted(HREF_RE.search(t).group(1) if HREF_RE.search(t) else t for t in b64list(data["toLoadCssTags"]))
    if got_js != want_js:
        return ("MANIFEST", f"toLoadJsTags {got_js}, expected {want_js}")
    if got_css != want_css:
        return ("MANIFEST", f"toLoadCssTags {got_css}, expected {want_css}")
    if data["loadedJsUrls"] or data["loadedCssUrls"]:
        return ("MANIFEST", "fragment marks urls as already loaded")
    return None


# ------------------------------------------------------------------------------------------------ entry paths
ENTRIES = ["render_dependencies(str)", "render_dependencies(bytes)", "middleware", "render_dependencies(SafeString)"]


MW_STATUS = [200, 200, 422, 404, 201, 200, 400, 200]   # HTML bodies also travel with non-2xx statuses (form errors, custom 404 pages)


def render_via(prog, classes, w, entry, rtype, gc_between, budget, status=200):
    from django.http import HttpResponse
    from django.template import Context, Template
    from django.utils.safestring import SafeString

    from django_components import render_dependencies
    from django_components.middleware import ComponentDependencyMiddleware

    try:
        with R.StepBudget(budget):
            if prog["py_entry"] and entry == "Component.render":
                node = prog["page"][0]
                cls = classes[node[1]]
                kwargs = {k: e[1] for k, e in node[2]}
                slots = {f[1][1]: f[4][0][1] for f in (node[5] if node[4] == "fills" else [])}
                return ("ok", str(cls.render(context=Context(dict(prog["ctx"])), kwargs=kwargs, slots=slots, type=rtype)))
            html = Template(emit.page_source(prog)).render(Context(dict(prog["ctx"])))
            if gc_between:
                world.gc_now()
                # the application flushes ITS OWN default cache (the project's CACHES["default"]) at this moment: none of
                # the library's business - the media cache is the library's private one, or the one named by COMPONENTS.cache
                from django.core.cache import caches

                caches["default"].clear()
            if entry == "render_dependencies(str)":
                return ("ok", render_dependencies(str(html), type=rtype))
            if entry == "render_dependencies(SafeString)":
                out = render_dependencies(html, type=rtype)
                if not isinstance(out, SafeString):
                    return ("err", "TypeNotPreserved", "SafeString in, %s out" % type(out).__name__, None)
                return ("ok", str(out))
            if entry == "render_dependencies(bytes)":
                return ("ok", render_dependencies(str(html).encode(), type=rtype).decode())
            if entry == "middleware":
                resp = HttpResponse(str(html), status=status)
                mw = ComponentDependencyMiddleware(get_response=lambda req: resp)
                return ("ok", mw(None).content.decode())
            raise AssertionError(entry)
    except world.StepBudgetExceeded as e:
        return ("hang", str(e))
    except Exception as e:
        return ("err", type(e).__name__, str(e)[:400], None)


def run(ch, params, decoded=False):
    knobs = R.draw_knobs(ch, cache_variants=world.CACHE_VARIANTS)
    prog = progmod.generate(ch, params)
    mode = prog["mode"]
    n_renders = 1 + ch.small(2, "n_renders", 1, 2)
    # a second page over the SAME component classes (other composition, other first-appearance order): whatever the
    # library remembers per class set from one document must not leak into the next
    prog_b = None
    if not prog["py_entry"] and ch.chance(1, 2, "second_page"):
        prog_b = progmod.generate(ch, dict(params, reuse_comps=prog["comps"], py_entry=0))
        prog_b["mode"] = mode
        n_renders = max(n_renders, 2)
    plan = []
    for k in range(n_renders):
        if prog["py_entry"]:
            entry = "Component.render"
        else:
            entry = ENTRIES[ch.weighted([4, 2, 2, 1], "entry")]
        rtype = "document" if entry == "middleware" else ["document", "fragment"][ch.weighted([3, 1], "rtype")]
        fault = [None, "clear", "evict", "expire"][ch.weighted([4, 2, 2, 2], "cache_fault")] if k > 0 else None
        evict_mask = ch.draw(8, "evict_mask") if fault == "evict" else 0
        plan.append({"entry": entry, "type": rtype, "fault_before": fault, "evict_mask": evict_mask,
                     "gc_between": ch.chance(1, 5, "gc_between"),
                     "page": (k % 2 if ch.chance(3, 4, "alternate") else 0) if prog_b is not None else 0})
    w = R.start_world(knobs, mode)
    stats = {"mode=" + mode: 1, "cache=" + knobs["cache_variant"]: 1, "page_wrap=%d" % prog["page_wrap"]: 1}
    violations = []
    exp_a = ref.run_model(prog)
    _skip = R.skipped_if_too_big(exp_a)
    if _skip is not None:
        return _skip
    exp = exp_a
    model = exp["model"]
    classes = emit.build_classes(prog)
    class_hash = {n: c._class_hash for n, c in classes.items()}
    budget = params["budget_mult"] * max(1, model.node_renders) + 300_000
    observed = []
    nontrivial = False
    pages = [(prog, exp_a, expectations(prog, exp_a["model"], exp_a["stream"]) if exp_a["result"][0] == "ok" else None)]
    if prog_b is not None:
        exp_b = ref.run_model(prog_b)
        if exp_b["result"][0] == "toobig":
            return R.skipped_if_too_big(exp_b)
        pages.append((prog_b, exp_b, expectations(prog_b, exp_b["model"], exp_b["stream"]) if exp_b["result"][0] == "ok" else None))
        budget += params["budget_mult"] * max(1, exp_b["model"].node_renders)
        if pages[0][2] and pages[1][2]:
            stats["probe:two_pages_same_classes_other_order"] = 1 if (
                sorted(pages[0][2]["classes"]) == sorted(pages[1][2]["classes"]) and pages[0][2]["classes"] != pages[1][2]["classes"]) else 0
    if exp["result"][0] == "ok":
        e = pages[0][2]
        nontrivial = bool(e["js"] or e["css"] or e["media_js"] or e["media_css"])
        stats["probe:classes_with_inline_js>=2"] = 1 if len(e["js"]) >= 2 else 0
        stats["probe:non_ascii_class_rendered"] = 1 if any(not (classes[n].__name__).isascii() for n in e["classes"]) else 0
        stats["probe:inherited_media"] = 1 if any(comps_base for comps_base in [c.get("base") for c in prog["comps"] if c["name"] in e["classes"]]) else 0
    for k, step in enumerate(plan):
        if step["fault_before"]:
            f = step["fault_before"]
            lost = world.media_cache_fault(f, pick=(lambda i, key, m=step["evict_mask"]: (m >> (i % 3)) & 1))
            stats["fault:CACHE_" + f.upper()] = stats.get("fault:CACHE_" + f.upper(), 0) + 1
            if f == "expire":
                stats["sim_time_s"] = stats.get("sim_time_s", 0) + 301
            elif lost:
                stats["probe:cache_entries_actually_lost"] = stats.get("probe:cache_entries_actually_lost", 0) + 1
        cur_prog, exp, e = pages[step["page"]]
        w.begin_op()
        real = render_via(cur_prog, classes, w, step["entry"], step["type"], step["gc_between"], budget,
                          status=MW_STATUS[((knobs["id_seed"] >> 11) + k) % len(MW_STATUS)])
        observed.append([real[0], real[1][:2500]])
        stats["entry:" + step["entry"]] = stats.get("entry:" + step["entry"], 0) + 1
        stats["type:" + step["type"]] = stats.get("type:" + step["type"], 0) + 1
        w.log("render", k, step["entry"], step["type"], real[0], real[1] if real[0] != "ok" else R.normalise(real[1]))
        bad = None
        if exp["result"][0] != "ok":
            if real[0] == "ok":
                bad = ("MISSING-ERROR", f"model raises {exp['result'][1]}")
            elif real[0] == "hang":
                bad = ("HANG", real[1])
            elif real[1] != exp["result"][1]:
                bad = ("EXCEPTION-TYPE", f"{real[1]}: {real[2]} - model raises {exp['result'][1]}")
        elif real[0] != "ok":
            bad = ("EXCEPTION" if real[0] == "err" else "HANG", f"{real[1]}: {real[2] if len(real) > 2 else ''}")
        else:
            wrap = cur_prog["page_wrap"]
            if step["entry"] == "Component.render":
                wrap = 0
            if step["type"] == "document":
                bad = check_document(real[1], e, exp["result"][1], wrap, class_hash)
            else:
                bad = check_fragment(real[1], e, exp["result"][1], class_hash)
        if bad:
            violations.append({"class": bad[0], "fingerprint": [step["type"], bad[0]],
                               "detail": {"render": k, "entry": step["entry"], "type": step["type"],
                                          "cache_fault_before": step["fault_before"], "what": bad[1]}})
            break
    out = {"violations": violations, "key": R.skeleton_key(prog, extra=[[p_["entry"], p_["type"], p_["fault_before"]] for p_ in plan]),
           "nontrivial": nontrivial, "stats": stats, "digest": w.digest()}
    if decoded or violations:
        out["decoded"] = {"knobs": knobs, "program": R.decoded_program(prog),
                          "second_page_over_same_classes": emit.page_source(prog_b) if prog_b is not None else None,
                          "assets": {c["name"]: {k_: c.get(k_) for k_ in ("cls", "js", "css", "media_js", "media_css", "base", "media_extend")}
                                     for c in prog["comps"]},
                          "plan": plan, "expected": list(exp["result"][:3]), "observed": observed}
    return out
