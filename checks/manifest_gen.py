"""Regenerate /verif/MANIFEST.json from checks/specs.py (run after editing the specs)."""
import json
import os
import sys

HERE = os.path.dirname(os.path.abspath(__file__))
VERIF = os.path.dirname(HERE)
sys.path.insert(0, VERIF)
from checks.specs import MANIFEST_META, NOT_APPLICABLE, SPECS  # noqa: E402

checks = []
for prop in sorted(SPECS):
    sp = SPECS[prop]
    meta = MANIFEST_META[prop]
    checks.append({
        "property_id": prop,
        "quick_cmd": f"/venv/bin/python -m checks.run {prop} --tier quick",
        "thorough_cmd": f"/venv/bin/python -m checks.run {prop} --tier thorough",
        "evidence_file": f"/verif/evidence/{prop}.json",
        "replay_cmd_template": f"/venv/bin/python -m checks.run {prop} --replay {{path}}",
        "engine": meta["engine"],
        "level_claimed": {"category": sp["level"], "text": meta["level_text"], "design_ref": meta["design_ref"]},
        "level_note": meta["level_note"],
        "technique": meta["technique"],
    })
engines = {}
for prop, meta in MANIFEST_META.items():
    if prop in SPECS:
        engines.setdefault(meta["engine"], []).append(prop)
ENGINE_KIND = {
    "state-sim": "operation histories from the choice engine against step-by-step reference models (LRU, registry, media)",
    "render-sim": "seeded program/history/fault generator + lexical reference renderer; faults: exceptions at user "
                  "callbacks, media-cache loss, GC points, restart; knobs: ids, cache sizes/backends",
    "thread-sim": "baton-passing real threads, sys.settrace line events as pre-emption points, seeded schedules",
}
manifest = {
    "version": 1,
    "setup_cmd": "/venv/bin/python -m checks.setup",
    "hooks": {
        "guard": "DJC_VERIF_HOOKS",
        "enable": "no hooks are needed or present: every seam is a module attribute or a Django setting that the "
                  "library resolves at call time (DESIGN.md 3.3); checks import the library from /repo/src directly",
        "baseline_off_cmd": "cd /repo && /venv/bin/python -m pytest -ra -q -p no:cacheprovider --timeout=900 "
                            "--continue-on-collection-errors",
        "source_commits": [],
        "add_only": True,
    },
    "engines": [{"name": k, "path": "/verif/sim", "serves_properties": sorted(v), "kind_free_text": ENGINE_KIND[k]}
                for k, v in sorted(engines.items())],
    "checks": checks,
    "notes": "Deterministic simulation with fault injection; one run = f(code, PYTHONHASHSEED, run seed). "
             "Exit 0 held / 1 VIOLATION / 2 harness error. known_findings.json lists repaired and open defects.",
    "not_applicable": [{"property_id": k, "reason": v} for k, v in sorted(NOT_APPLICABLE.items()) if k not in SPECS],
}
with open(os.path.join(VERIF, "MANIFEST.json"), "w") as f:
    json.dump(manifest, f, indent=1)
print("checks:", [c["property_id"] for c in checks], "n/a:", [n["property_id"] for n in manifest["not_applicable"]])
