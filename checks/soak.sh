#!/bin/bash
# Soak: quick tier of every claimed property under several VERIF_SEED values. Usage: checks/soak.sh "1 2 3" [props...]
seeds="$1"; shift
props="${@:-C01 C03 C04 C05 C06 C07 C14 C15 C16 C18 C19}"
for s in $seeds; do for p in $props; do
  VERIF_SEED=$s VERIF_WORKERS=${VERIF_WORKERS:-8} /venv/bin/python -m checks.run $p --tier quick | grep -v "^  class" | tail -3
done; done
