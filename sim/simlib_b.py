"""Template tag library 'simlib_b': defines the filter `label` (the library 'simlib_a' defines it differently)."""
from django import template

register = template.Library()


@register.filter(name="label")
def label(value):
    return "(b:%s)" % value
