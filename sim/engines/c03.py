"""C03: variable scoping follows the configured context behaviour (render-sim, collision mode).

Programs bind the same few names (va, vb, vc) at page level, in component data, in {% with %} / {% for %} and
read them everywhere; every binding site has a distinct value, so the output shows which binding was seen.
Oracles per run (after a drawn history prefix, under drawn knobs):
  1. caller-Context preservation: the Context handed to Template.render / Component.render(context=) is
     bit-for-bit as before (layer identities and contents, render_context depth, bound template)
  2. two-run non-interference (isolated mode): the same page rendered again with different values for variables
     that only component templates read (never passed) must give the same output
  3. layered-scope reference model (transcription of the statement for both modes and the `only` flag)
"""
from sim import findings, world
from sim.model import emit, prog as progmod, ref
from sim.engines import render as R

NOISE = ["nz0", "nz1"]


# what the library says when the reference model raises for this reason (used only to recognise a known finding whose
# visible effect is an error: the misplaced variable decided an {% if %} around a {% fill %} during fill discovery)
REASON_TEXT = {
    "fill outside component body": "cannot be rendered outside of a Component context",
    "text beside fills": "Explicit 'fill' tags cannot occur alongside other text",
    "duplicate fill": "Multiple fill tags cannot target the same slot name",
    "slot filled twice": "was filled twice",
    "required slot unfilled": "is marked as 'required'",
}


def same_as(real, q):
    """Does the real result equal, exactly, what the reference model with a quirk switched on predicts?"""
    if q[0] == "ok":
        return real[0] == "ok" and R.normalise(real[1]) == q[1]
    if q[0] == "err" and real[0] == "err" and real[1] == q[1]:
        for reason, text in REASON_TEXT.items():
            if str(q[2]).startswith(reason):
                return text in real[2]
    return False


def default_params(tier):
    p = progmod.default_params(tier, collide=True, forbid=["provide", "inject_default", "negative"])
    p["budget_mult"] = 5000
    p["loop_ladder"] = 8
    p["reentrant"] = 10   # re-entrant fill family (prog.generate_reentrant)
    p["py_entry"] = 8
    p["max_prefix"] = 2
    p["noise_reads"] = True
    p["only_den"] = 2
    return p


def snapshot(ctx):
    return {
        "layer_ids": [id(d) for d in ctx.dicts],
        "layers": [dict(d) for d in ctx.dicts],
        "render_context_depth": len(ctx.render_context.dicts),
        "template": ctx.template,
        "render_template": ctx.render_context.template,
        "autoescape": ctx.autoescape,
    }


def diff_snapshot(a, b):
    for k in a:
        if a[k] != b[k]:
            if k == "layers":
                return f"context layers changed: {len(a[k])} layers before, {len(b[k])} after; " \
                       f"first difference {next(((x, y) for x, y in zip(a[k], b[k]) if x != y), None)}"
            return f"{k} changed: {a[k]!r} -> {b[k]!r}"
    return None


def render_keep_ctx(prog, classes, w, budget, data, python_entry=False):
    from django.template import Context, Template

    ctx = Context(dict(data))
    with ctx.update({"extra_layer": 1}):
        before = snapshot(ctx)
        try:
            with R.StepBudget(budget):
                if python_entry:
                    node = prog["page"][0]
                    kwargs = {k: e[1] for k, e in node[2]}
                    slots = {f[1][1]: f[4][0][1] for f in (node[5] if node[4] == "fills" else [])}
                    html = classes[node[1]].render(context=ctx, kwargs=kwargs, slots=slots)
                else:
                    html = Template(emit.page_source(prog)).render(ctx)
            res = ("ok", str(html))
        except world.StepBudgetExceeded as e:
            res = ("hang", str(e))
        except RecursionError:
            res = ("hang", "RecursionError")
        except Exception as e:
            res = ("err", type(e).__name__, str(e))
        after = snapshot(ctx)
    return res, diff_snapshot(before, after) if res[0] == "ok" else None


def add_noise_reads(ch, prog):
    """Sprinkle reads of nz0/nz1 into component templates only (never at page level)."""
    n = 0
    for c in prog["comps"]:
        if ch.chance(1, 2, "noise_read"):
            c["tmpl"].insert(ch.draw(len(c["tmpl"]) + 1, "noise_pos"), ["var", NOISE[ch.draw(2, "noise_name")]])
            n += 1
    return n


def run(ch, params, decoded=False):
    knobs = R.draw_knobs(ch, registries=not params.get("pinned_prog"))
    if params.get("pinned_prog"):
        # pinned case of a known finding: the program is given as data, so the file stays valid when the generator changes
        import json as _json
        prog = _json.loads(_json.dumps(params["pinned_prog"]))
        mode = prog["mode"]
        n_noise = 0
        prefix = []
    else:
        prog = progmod.generate(ch, params)
        mode = prog["mode"]
        n_noise = add_noise_reads(ch, prog) if params.get("noise_reads") else 0
        prog["ctx"]["nz0"] = "NA0"
        prefix = R.gen_prefix_ops(ch, params, mode, params.get("max_prefix", 0))
    flip = (not params.get("pinned_prog")) and ch.chance(1, 6, "mode_flip")
    private = knobs.get("registry", "default") != "default"
    if private:
        flip = False   # the project-wide setting is not what a private registry's components follow
    w = R.start_world(knobs, mode)
    violations = []
    stats = {"mode=" + mode: 1, "registry=" + knobs.get("registry", "default"): 1}
    R.run_prefix_ops(prefix, w, stats)
    exp = ref.run_model(prog)
    _skip = R.skipped_if_too_big(exp)
    if _skip is not None:
        return _skip
    model = exp["model"]
    classes = emit.build_classes(prog)
    if flip:
        # configuration history: the same page and component templates were first compiled and rendered under the OTHER
        # context_behavior (they stay in the template cache); the setting is then changed and must take effect
        from django.conf import settings

        other = "isolated" if mode == "django" else "django"
        settings.COMPONENTS = dict(settings.COMPONENTS, context_behavior=other)
        w.begin_op()
        R.real_render_page(prog, classes, w, budget=3_000_000)
        settings.COMPONENTS = dict(settings.COMPONENTS, context_behavior=mode)
        stats["fault:CONFIG_FLIP(context_behavior between renders)"] = 1
    budget = params["budget_mult"] * max(1, model.node_renders) + 300_000
    observed = {}

    def judge(variant, real, ctx_problem):
        nonlocal exp
        observed[variant] = [real[0], R.normalise(real[1])] if real[0] == "ok" else list(real[:3])
        w.log(variant, observed[variant])
        bad = R.compare(real if real[0] != "err" else (real[0], real[1], real[2], None), exp["result"])
        if bad:
            cls, fp = "SCOPE-" + bad[0], [variant, bad[0], bad[1]]
            if bad[0] in ("OUTPUT", "EXCEPTION", "MISSING-ERROR") and variant == "tag":
                # diagnosis: is this exactly the behaviour of known finding F7 (and nothing else)?
                if same_as(real, ref.run_model(prog, quirks=["forloop_layer"])["result"]):
                    cls, fp = "SCOPE-LOOPVAR-VISIBLE-IN-ISOLATED-COMPONENT", ["isolated-component-sees-enclosing-loop-variable"]
                elif same_as(real, ref.run_model(prog, quirks=["extra_context_as_code"])["result"]):
                    cls, fp = "SCOPE-FILL-CAPTURED-VARIABLES-MISORDERED", ["fill-captured-variables-misordered"]
                elif same_as(real, ref.run_model(prog, quirks=["forloop_layer", "extra_context_as_code"])["result"]):
                    cls, fp = "SCOPE-F7-AND-F15-COMPOSED", ["loop-layer-forwarding-composed-with-captured-variable-merging"]
            v = {"class": cls, "fingerprint": fp, "detail": {"variant": variant, "what": bad[2]}}
            v["known"] = findings.classify("C03", v, prog)
            violations.append(v)
        elif ctx_problem:
            violations.append({"class": "CALLER-CONTEXT", "fingerprint": [variant, "caller-context"],
                               "detail": {"variant": variant, "what": ctx_problem}})

    w.begin_op()
    real, ctxp = render_keep_ctx(prog, classes, w, budget, prog["ctx"])
    judge("tag", real, ctxp)
    stats["probe:caller_context_checked"] = 1 if real[0] == "ok" else 0
    if prog["py_entry"] and not violations and knobs.get("registry") != "private-opposite":
        # Component.render(context=ctx): the given context is the ROOT context also in isolated mode (the suite pins
        # this), so only variables that nothing reads are handed over; the oracle of interest here is caller-Context
        # preservation. The expected output is the model's for an empty page context.
        prog_empty = dict(prog, ctx={})
        exp_py = ref.run_model(prog_empty)
        w.begin_op()
        real2, ctxp2 = render_keep_ctx(prog, classes, w, budget, {"zz_unused": "Z"}, python_entry=True)
        saved = exp
        exp = exp_py
        judge("python", real2, ctxp2)
        exp = saved
        stats["variant:Component.render(context=ctx)"] = 1
    if mode == "isolated" and not violations and real[0] == "ok":
        data2 = dict(prog["ctx"])
        data2["nz0"] = "NB0"
        data2["nz1"] = "NB1"
        w.begin_op()
        real3, _ = render_keep_ctx(prog, classes, w, budget, data2)
        if real3[0] != "ok" or R.normalise(real3[1]) != R.normalise(real[1]):
            violations.append({"class": "INTERFERENCE", "fingerprint": ["two-run"],
                               "detail": {"what": "output changed with the value of a variable that is never passed to a component",
                                          "run_a": R.normalise(real[1])[:300],
                                          "run_b": R.normalise(real3[1])[:300] if real3[0] == "ok" else list(real3[:3])}})
        stats["probe:two_run_checked"] = 1
        stats["probe:two_run_with_noise_reads"] = 1 if n_noise else 0
    feats = R.program_features(prog, model)
    stats["result=" + exp["result"][0]] = 1
    res = {"violations": violations, "key": R.skeleton_key(prog), "stats": stats, "digest": w.digest(),
           "nontrivial": exp["result"][0] == "ok" and feats["instances"] >= 1 and (feats["slot_filled"] > 0 or n_noise > 0)}
    if decoded or violations:
        res["decoded"] = {"knobs": knobs, "history_prefix": R.decoded_ops(prefix), "program": R.decoded_program(prog),
                          "expected": list(exp["result"][:3]), "observed": observed}
        if violations:
            res["decoded"]["ast"] = {k: v for k, v in prog.items()}
    return res
