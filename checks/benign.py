"""Run the quick tier of every claimed check against a behaviour-preserving patch: every one must exit 0.

  python -m checks.benign <patch> [--frac 3]      (run counts divided by frac)
"""
import argparse
import json
import os
import subprocess
import sys

HERE = os.path.dirname(os.path.abspath(__file__))
sys.path.insert(0, os.path.dirname(HERE))
from checks.specs import SPECS  # noqa: E402

ap = argparse.ArgumentParser()
ap.add_argument("patch")
ap.add_argument("--frac", type=int, default=3)
ap.add_argument("--props")
a = ap.parse_args()
out = {}
for prop in (a.props.split(",") if a.props else sorted(SPECS)):
    runs = max(p["runs"] for p in SPECS[prop]["parts"]("quick")) // a.frac
    r = subprocess.run(["/venv/bin/python", "-m", "checks.audit", a.patch, prop, "--runs", str(runs)],
                       cwd=os.path.dirname(HERE), capture_output=True, text=True,
                       env=dict(os.environ, VERIF_SELFTEST="0", VERIF_REPLAY_DIR="/tmp/benign-replays"))
    last = [l for l in r.stdout.splitlines() if l.startswith(prop + " tier")]
    out[prop] = {"exit": r.returncode, "summary": last[-1][-110:] if last else (r.stdout + r.stderr)[-300:]}
    print(prop, out[prop], flush=True)
print(json.dumps({k: v["exit"] for k, v in out.items()}))
