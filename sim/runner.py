"""Orchestrator: starts zygotes (one hash seed each), hands out run indices, merges results,
minimises violations, writes replay files.  Never imports Django or the library itself.
"""
import json
import os
import subprocess
import sys
import threading
import time

from .choices import trim
from .shrink import shrink

VERIF_DIR = os.path.dirname(os.path.dirname(os.path.abspath(__file__)))
PY = os.environ.get("VERIF_PYTHON", "/venv/bin/python")
HASHSEEDS = [0, 1, 2, 3]


class HarnessError(Exception):
    pass


class Zygote:
    def __init__(self, hashseed):
        env = dict(os.environ)
        env["PYTHONHASHSEED"] = str(hashseed)
        env["PYTHONDONTWRITEBYTECODE"] = "1"
        env.pop("DJANGO_SETTINGS_MODULE", None)
        self.hashseed = hashseed
        self.p = subprocess.Popen(
            [PY, "-u", "-m", "sim.zygote"],
            cwd=VERIF_DIR,
            env=env,
            stdin=subprocess.PIPE,
            stdout=subprocess.PIPE,
            stderr=subprocess.PIPE,
            text=True,
            bufsize=1,
        )
        self._stderr = []
        self._t = threading.Thread(target=self._drain, daemon=True)
        self._t.start()
        line = self.p.stdout.readline()
        try:
            msg = json.loads(line)
        except Exception:
            raise HarnessError(f"zygote did not start: {line!r} stderr={''.join(self._stderr)[-2000:]}")
        if not msg.get("ready"):
            raise HarnessError(f"zygote boot failed: {msg}")

    def _drain(self):
        for line in self.p.stderr:
            self._stderr.append(line)
            if len(self._stderr) > 200:
                del self._stderr[:100]

    def call(self, cmd):
        self.p.stdin.write(json.dumps(cmd) + "\n")
        self.p.stdin.flush()
        line = self.p.stdout.readline()
        if not line:
            raise HarnessError(f"zygote died. stderr tail: {''.join(self._stderr)[-3000:]}")
        out = json.loads(line)
        if "zygote_error" in out:
            raise HarnessError("zygote error: " + out["zygote_error"])
        return out

    def close(self):
        try:
            self.p.stdin.write(json.dumps({"cmd": "quit"}) + "\n")
            self.p.stdin.flush()
            self.p.stdin.close()
        except Exception:
            pass
        try:
            self.p.wait(timeout=5)
        except Exception:
            self.p.kill()


def hashseed_of(index):
    return HASHSEEDS[index % len(HASHSEEDS)]


def explore(prop, engine, params, seed, n_runs, workers=16, wall_s=120.0, run_timeout_s=60.0, per_fork=1,
            samples=2, digests=False, first_index=0):
    """Execute run indices first_index .. first_index+n_runs-1.  Index i runs under hash seed HASHSEEDS[i % 4]
    whatever the worker count, so a run is a pure function of (code, seed, index)."""
    H = len(HASHSEEDS)
    workers = max(1, workers)
    per_hs = max(1, workers // H)
    jobs = []  # (hashseed, start, stop, step)
    stop = first_index + n_runs
    for h in range(H):
        for j in range(per_hs):
            start = first_index + h + j * H
            # first index >= first_index with index % H == (first_index+h) % H and the j-th sub-stride
            jobs.append((hashseed_of(start), start, stop, H * per_hs))
    results = [None] * len(jobs)
    errors = []

    def work(k):
        hs, start, stop_, step = jobs[k]
        if start >= stop_:
            results[k] = None
            return
        z = None
        try:
            z = Zygote(hs)
            results[k] = z.call(
                {
                    "cmd": "batch", "engine": engine, "params": params, "prop": prop, "seed": seed,
                    "indices": [start, stop_, step], "wall_s": wall_s, "run_timeout_s": run_timeout_s,
                    "per_fork": per_fork, "samples": samples, "digests": digests,
                }
            )
        except BaseException as e:
            errors.append(f"job {k} (hashseed {hs}): {e}")
        finally:
            if z is not None:
                z.close()

    t0 = time.monotonic()
    sem = threading.Semaphore(workers)
    threads = []

    def guarded(k):
        with sem:
            work(k)

    for k in range(len(jobs)):
        t = threading.Thread(target=guarded, args=(k,))
        t.start()
        threads.append(t)
    for t in threads:
        t.join()
    if errors:
        raise HarnessError("; ".join(errors))
    merged = {
        "runs": 0, "stats": {}, "keys": {}, "violations": [], "harness_errors": [], "samples": [],
        "stopped_early": False, "digests": {}, "wall_s": round(time.monotonic() - t0, 3),
        "first_index": first_index, "last_index": None,
    }
    for r in results:
        if r is None:
            continue
        merged["runs"] += r["runs"]
        for k, v in r["stats"].items():
            merged["stats"][k] = merged["stats"].get(k, 0) + v
        for k, v in r["keys"].items():
            merged["keys"][k] = max(merged["keys"].get(k, 0), v)
        merged["violations"].extend(r["violations"])
        merged["harness_errors"].extend(r["harness_errors"])
        merged["samples"].extend(r["samples"])
        merged["stopped_early"] = merged["stopped_early"] or r["stopped_early"]
        merged["digests"].update(r.get("digests") or {})
        if r["last_index"] is not None:
            merged["last_index"] = max(merged["last_index"] or 0, r["last_index"])
    merged["violations"].sort(key=lambda v: v["index"])
    merged["samples"].sort(key=lambda s: s["index"])
    return merged


def fp_key(v):
    return json.dumps([v.get("class"), v.get("fingerprint")], sort_keys=True)


def run_case(z, engine, params, draws=None, run_seed=None, decoded=False, run_timeout_s=60.0):
    return z.call({"cmd": "one", "engine": engine, "params": params, "draws": draws, "run_seed": run_seed,
                   "decoded": decoded, "run_timeout_s": run_timeout_s})


def minimise(z, engine, params, violation, max_execs=1200, max_seconds=45.0, run_timeout_s=60.0):
    """Shrink the draw list of `violation` while a violation with the same class+fingerprint persists."""
    want = fp_key(violation)

    def test(draws):
        res = run_case(z, engine, params, draws=draws, run_timeout_s=run_timeout_s)
        if "harness_error" in res:
            return False, draws
        for v in res.get("violations") or []:
            if fp_key(v) == want:
                return True, res.get("draws") or draws
        return False, draws

    draws0 = violation["draws"]
    ok, actual = test(list(draws0))
    if not ok:
        return None, {"executions": 1, "note": "original draws did not reproduce"}
    best, info = shrink(actual, test, max_execs=max_execs, max_seconds=max_seconds)
    info["from_draws"] = len(trim(draws0))
    info["to_draws"] = len(best)
    return best, info


def git_head(path="/repo"):
    try:
        return subprocess.run(["git", "-C", path, "rev-parse", "HEAD"], capture_output=True, text=True, timeout=10).stdout.strip()
    except Exception:
        return "unknown"
