"""C05: inject() returns the nearest enclosing {% provide %} of the rendered structure.

History dimension: 1-5 renders of provider/consumer programs in one world, mixed with renders that fail at a
drawn callback and with GC; after every operation the three provide registries must be empty, and every
successful render must equal the reference renderer's provider-stack lookup.
"""
from sim import world
from sim.model import emit, prog as progmod, ref
from sim.engines import render as R


def default_params(tier):
    p = progmod.default_params(tier, forbid=["aliases", "negative"], force=["provide", "inject_default"],
                               provide_bias=2)
    p["budget_mult"] = 5000
    p["only_den"] = 2
    p["ladder"] = 4
    p["max_renders"] = 4 if tier == "quick" else 6
    p["size_hi"] = 40 if tier == "quick" else 60
    p["force"] = ["provide", "inject_default", "loops"]
    p["provide_bias"] = 3
    return p


def provide_residue():
    reg = world.registries()
    return {k: reg[k] for k in ("provide_cache", "provide_references", "all_reference_ids") if reg[k]}


def run(ch, params, decoded=False):
    knobs = R.draw_knobs(ch, registries=True)
    mode = ["django", "isolated"][ch.draw(2, "mode")]
    n = 1 + ch.small(params["max_renders"] - 1, "n_renders", 1, 2)
    ops = []
    for k in range(n):
        p = R.rename_program(progmod.generate(ch, params), f"h{k}")
        p["mode"] = mode
        op = {"op": "render", "prog": p, "fault_at": None, "exc": 0}
        if k < n - 1 and ch.chance(1, 3, "failing"):
            op["fault_at"] = 1 + ch.draw(8, "fault_at")
            op["exc"] = ch.draw(len(world.exc_kinds()), "exc")
        ops.append(op)
        if ch.chance(1, 6, "gc"):
            ops.append({"op": "gc"})
    w = R.start_world(knobs, mode)
    violations = []
    stats = {"mode=" + mode: 1, "renders": n, "registry=" + knobs.get("registry", "default"): 1}
    observed = []
    nontrivial = False
    keyparts = []
    for oi, op in enumerate(ops):
        if op["op"] == "gc":
            world.gc_now()
            stats["fault:GC_NOW"] = stats.get("fault:GC_NOW", 0) + 1
            continue
        prog = op["prog"]
        exp = ref.run_model(prog)
        if exp["result"][0] == "toobig":
            stats["skipped:program_too_large"] = stats.get("skipped:program_too_large", 0) + 1
            continue
        model = exp["model"]
        classes = emit.build_classes(prog)
        budget = params["budget_mult"] * max(1, model.node_renders) + 300_000
        before = provide_residue()
        w.begin_op(fault_at=op["fault_at"], exc_kind=op["exc"])
        real = R.real_render_page(prog, classes, w, budget=budget)
        fired = w.main.fired
        obs = [real[0], R.normalise(real[1])] if real[0] == "ok" else list(real[:3])
        observed.append(obs)
        w.log("render", oi, obs, fired[:2] if fired else None)
        keyparts.append(progmod.program_skeleton(prog))
        if fired is not None:
            stats["fault:EXC@callback"] = stats.get("fault:EXC@callback", 0) + 1
            # a failing render: only the injected exception may come out (judged in detail by C06)
            if real[0] == "hang":
                violations.append({"class": "HANG", "fingerprint": ["failing-render", "HANG"],
                                   "detail": {"op": oi, "what": real[1]}})
        else:
            bad = R.compare(real, exp["result"])
            if bad:
                violations.append({"class": bad[0], "fingerprint": ["render", bad[0], bad[1]],
                                   "detail": {"op": oi, "what": bad[2]}})
            if exp["result"][0] == "ok":
                pr = model.probes
                if pr.get("inject_found", 0):
                    stats["probe:inject_found_provider"] = stats.get("probe:inject_found_provider", 0) + 1
                    nontrivial = True
                if pr.get("inject_default", 0):
                    stats["probe:inject_fell_back_to_default"] = stats.get("probe:inject_fell_back_to_default", 0) + 1
            else:
                stats["result=err:" + exp["result"][1]] = stats.get("result=err:" + exp["result"][1], 0) + 1
        # residue left by a *failing* render is C06's subject; here it only matters through later renders
        # (a successful render must leave the provide registries exactly as it found them)
        res = provide_residue() if real[0] == "ok" else None
        if res is not None and res == before:
            res = None
        if res and not violations:
            violations.append({"class": "RESIDUE", "fingerprint": ["provide-registries", sorted(res)],
                               "detail": {"op": oi, "after": "failing render" if fired else "render",
                                          "residue": {k: len(v) for k, v in res.items()}}})
        if violations:
            break
    out = {
        "violations": violations,
        "key": R.hashlib.blake2b(R.json.dumps([mode, keyparts, [o.get("fault_at") for o in ops]]).encode(), digest_size=8).hexdigest(),
        "nontrivial": nontrivial,
        "stats": stats,
        "digest": w.digest(),
    }
    if decoded or violations:
        out["decoded"] = {"knobs": knobs, "mode": mode, "ops": R.decoded_ops(ops), "observed": observed}
    return out
