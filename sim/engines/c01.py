"""C01: each slot renders the fill addressed to it (render-sim, structure mode)."""
from sim import world
from sim.model import emit, prog as progmod, ref
from sim.engines import render as R


def default_params(tier):
    p = progmod.default_params(tier, forbid=["only", "provide", "inject_default"])
    p["budget_mult"] = 5000
    return p


def run(ch, params, decoded=False):
    knobs = R.draw_knobs(ch)
    prog = progmod.generate(ch, params)
    w = R.start_world(knobs, prog["mode"])
    violations = []
    stats = {"mode=" + prog["mode"]: 1}

    exp = ref.run_model(prog)
    model = exp["model"]
    classes = emit.build_classes(prog)
    budget = params["budget_mult"] * max(1, model.node_renders) + 300_000
    w.begin_op()
    real = R.real_render_page(prog, classes, w, budget=budget)
    bad = R.compare(real, exp["result"])
    if bad:
        violations.append({"class": bad[0], "fingerprint": ["tag", bad[0], bad[1]],
                           "detail": {"what": bad[2], "variant": "tag"}})
    feats = R.program_features(prog, model)
    stats["result=" + exp["result"][0] + (":" + exp["result"][1] if exp["result"][0] == "err" else "")] = 1
    stats["probe:fill_crosses_component_boundary"] = 1 if feats["fill_crosses_boundary"] else 0
    stats["probe:slot_renders_default_content"] = 1 if feats["slot_default_content"] else 0
    stats["instances"] = feats["instances"]
    stats["user_callbacks"] = w.main.fp_count
    stats["lib_calls"] = R.LAST_STEPS[0]
    stats["model_node_renders"] = model.node_renders
    ratio = R.LAST_STEPS[0] / max(1, model.node_renders)
    stats["ratio_bucket=%d" % (min(int(ratio) // 50, 40) * 50)] = 1
    res = {
        "violations": violations,
        "key": R.skeleton_key(prog),
        "nontrivial": bool(feats["fill_crosses_boundary"] or feats["slot_default_content"]) and exp["result"][0] == "ok",
        "stats": stats,
        "digest": w.digest(),
    }
    if decoded or violations:
        res["decoded"] = {"knobs": knobs, "program": R.decoded_program(prog), "expected": list(exp["result"][:3]),
                          "observed": [real[0], R.normalise(real[1])] if real[0] == "ok" else list(real[:3])}
    return res
