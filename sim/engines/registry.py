"""C15: ComponentRegistry + Library.tags against a dict / tag-set reference model, step by step."""
import hashlib

NAMES = ["a", "b", "slot", "provide"]   # two of them are names of protected built-in tags
_CLASSES = None


def _classes():
    global _CLASSES
    if _CLASSES is None:
        from django_components import Component

        _CLASSES = [type(f"RegComp{i}", (Component,), {"template": f"r{i}", "__module__": "sim.engines.registry"})
                    for i in range(3)]
    return _CLASSES


def default_params(tier):
    return {"max_ops": 10 if tier == "quick" else 25}


class Model:
    def __init__(self, shorthand, protected, initial_tags):
        self.d = {}
        self.shorthand = shorthand
        self.protected = set(protected)
        self.initial = set(initial_tags)

    def tag(self, name):
        return name if self.shorthand else "component"

    def register(self, name, cls):
        from django_components import AlreadyRegistered
        from django_components.library import TagProtectedError

        if name in self.d and self.d[name] is not cls:
            raise AlreadyRegistered()
        if self.tag(name) in self.protected:
            raise TagProtectedError()
        self.d[name] = cls

    def unregister(self, name):
        from django_components import NotRegistered

        if name not in self.d:
            raise NotRegistered()
        del self.d[name]

    def get(self, name):
        from django_components import NotRegistered

        if name not in self.d:
            raise NotRegistered()
        return self.d[name]

    def all(self):
        return dict(self.d)

    def clear(self):
        self.d.clear()

    def tags(self):
        return self.initial | {self.tag(n) for n in self.d}


def run(ch, params, decoded=False):
    from django.template import Library

    from django_components import ComponentRegistry, RegistrySettings, register as register_deco
    from django_components.library import PROTECTED_TAGS, mark_protected_tags

    classes = _classes()
    n_regs = 1 + ch.draw(2, "n_regs")
    regs = []
    cfg = []
    for r in range(n_regs):
        shorthand = bool(ch.draw(2, "shorthand"))
        protected = bool(ch.draw(2, "protected"))
        lib = Library()
        initial = {}
        # which of the protected names this private Library actually defines (a name stays protected either way)
        defined = [("slot", "fill"), ("slot", "fill", "provide"), ("fill",), ()][ch.draw(4, "defined_builtins")] if protected else ()
        # how the settings reach the registry: lower-case fields, the deprecated upper-case field, both spellings mixed
        # in one RegistrySettings, or a callable
        style = ch.draw(4, "settings_style")
        if protected:
            for t in defined:
                fn = (lambda parser, token, _t=t: None)
                lib.tag(t, fn)
                initial[t] = fn
            mark_protected_tags(lib)
        fmt = "django_components.component_shorthand_formatter" if shorthand else "django_components.component_formatter"
        if style == 0:
            st = RegistrySettings(tag_formatter=fmt)
        elif style == 1:
            st = RegistrySettings(TAG_FORMATTER=fmt)
        elif style == 2:
            st = RegistrySettings(context_behavior="isolated", TAG_FORMATTER=fmt)
        else:
            st = (lambda registry, _fmt=fmt: RegistrySettings(CONTEXT_BEHAVIOR="django", tag_formatter=_fmt))
        reg = ComponentRegistry(library=lib, settings=st)
        model = Model(shorthand, PROTECTED_TAGS if protected else [], initial.keys())
        regs.append((reg, lib, model, initial))
        cfg.append({"shorthand": shorthand, "protected": protected, "defined_builtins": list(defined),
                    "settings_style": ["lower", "UPPER", "mixed", "callable"][style]})
    n_ops = ch.int_between(1, params["max_ops"], "n_ops")
    ops = []
    violations = []
    exc_ops = 0
    shared_tag_unreg = 0
    states = set()
    for i in range(n_ops):
        r = ch.draw(n_regs, "reg")
        reg, lib, model, initial = regs[r]
        kind = ch.weighted([5, 4, 1, 2, 1, 2], "op")  # register, unregister, clear, get, all, @register
        name = NAMES[ch.draw(len(NAMES), "name")] if kind in (0, 1, 3, 5) else None
        cls_i = ch.draw(len(classes), "cls") if kind in (0, 5) else None
        opname = ("register", "unregister", "clear", "get", "all", "@register")[kind]
        ops.append([r, opname, name, cls_i])
        if kind == 1 and name in model.d and sum(1 for n in model.d if model.tag(n) == model.tag(name)) > 1:
            shared_tag_unreg += 1

        def call(target_kind, obj, mdl):
            if target_kind == 0:
                return obj.register(name, classes[cls_i]) if mdl is None else mdl.register(name, classes[cls_i])
            if target_kind == 1:
                return obj.unregister(name) if mdl is None else mdl.unregister(name)
            if target_kind == 2:
                return obj.clear() if mdl is None else mdl.clear()
            if target_kind == 3:
                return obj.get(name) if mdl is None else mdl.get(name)
            if target_kind == 4:
                return obj.all() if mdl is None else mdl.all()
            if target_kind == 5:
                if mdl is None:
                    ret = register_deco(name, registry=obj)(classes[cls_i])
                    return None if ret is classes[cls_i] else ("decorator returned", repr(ret))
                return mdl.register(name, classes[cls_i])

        try:
            exp = ("ok", call(kind, None, model))
        except Exception as e:
            exp = ("err", type(e).__name__)
            exc_ops += 1
        try:
            got = ("ok", call(kind, reg, None))
        except Exception as e:
            got = ("err", type(e).__name__)
        problem = None
        if got != exp:
            problem = ("RETURN", f"{opname}({name!r}) gave {got!r}, model {exp!r}")
        else:
            for (reg2, lib2, model2, initial2) in regs:
                if reg2.all() != model2.all():
                    problem = ("CONTENT", f"registry.all() {sorted(reg2.all())} != model {sorted(model2.all())}")
                    break
                if set(lib2.tags) != model2.tags():
                    problem = ("TAGS", f"library tags {sorted(lib2.tags)} != model {sorted(model2.tags())}")
                    break
                bad = [t for t, fn in initial2.items() if lib2.tags.get(t) is not fn]
                if bad:
                    problem = ("PROTECTED", f"protected tag(s) {bad} overwritten or removed")
                    break
        states.add(tuple((tuple(sorted((n, c.__name__) for n, c in m.d.items())), tuple(sorted(m.tags())))
                         for (_, _, m, _) in regs))
        if problem:
            violations.append({"class": "MODEL-MISMATCH:" + problem[0], "fingerprint": [opname, problem[0]],
                               "detail": {"op_index": i, "what": problem[1], "config": cfg}})
            break
    key = hashlib.blake2b(repr((cfg, ops)).encode(), digest_size=8).hexdigest()
    res = {
        "violations": violations,
        "key": key,
        "nontrivial": bool(exc_ops or shared_tag_unreg),
        "stats": {"ops": len(ops), "ops_raising_in_model": exc_ops, "probe:unregister_of_shared_tag": shared_tag_unreg,
                  "model_states_visited": len(states), f"registries={n_regs}": 1},
        "digest": key,
    }
    if decoded or violations:
        res["decoded"] = {"registries": cfg, "ops": ops}
    return res
