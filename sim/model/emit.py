"""Program -> Django template sources and real Component classes (the system under test side)."""
from sim import world

DEFAULT_SENTINEL = "DEFAULT"


def _expr(e):
    if e[0] == "lit":
        return '"%s"' % e[1]
    if e[0] == "varf":
        return '%s|vf:"%s"' % (e[1], e[2])
    if e[0] == "tpl":
        return '"{{ %s }}"' % e[1]
    return e[1]


def _kw(kwargs):
    return "".join((" ...%s" % _expr(e)) if k == "..." else (" %s=%s" % (k, _expr(e))) for k, e in kwargs)


def emit_nodes(nodes, owner_name, elems_echo=True):
    out = []
    for n in nodes:
        k = n[0]
        if k == "text":
            out.append(n[1])
        elif k == "var":
            out.append("{{ %s }}" % n[1])
        elif k == "varf":
            out.append('{{ %s|vf:"%s" }}' % (n[1], n[2]))
        elif k == "if":
            out.append("{%% if %s %%}%s" % (n[1], emit_nodes(n[2], owner_name)))
            if n[3]:
                out.append("{%% else %%}%s" % emit_nodes(n[3], owner_name))
            out.append("{% endif %}")
        elif k == "for":
            out.append("{%% for %s in %s %%}%s{%% endfor %%}" % (n[1], n[2], emit_nodes(n[3], owner_name)))
        elif k == "with":
            out.append("{%% with %s=%s %%}%s{%% endwith %%}" % (n[1], _expr(n[2]), emit_nodes(n[3], owner_name)))
        elif k == "elem":
            o = ' data-o="{{ %s_id }}"' % owner_name if owner_name else ""
            out.append('<%s data-e="%s"%s>%s</%s>' % (n[1], n[2], o, emit_nodes(n[3], owner_name), n[1]))
        elif k == "include":
            out.append('{%% include "%s" %%}' % partial(emit_nodes(n[3], owner_name)))
        elif k == "comp":
            _, cname, kwargs, only, bk, body, dyn = n
            head = ('"dynamic" is="%s"' % cname) if dyn else '"%s"' % cname
            flags = " only" if only else ""
            tag = world.component_tag()
            if bk == "none":
                out.append("{%% %s %s%s%s / %%}" % (tag, head, _kw(kwargs), flags))
            else:
                out.append("{%% %s %s%s%s %%}%s{%% end%s %%}" % (
                    tag, head, _kw(kwargs), flags, emit_nodes(body, owner_name), tag))
        elif k == "fill":
            _, nameexpr, da, df, body = n
            head = '"%s"' % nameexpr[1] if nameexpr[0] == "lit" else "name=%s" % _expr(nameexpr)
            if da:
                head += ' data="%s"' % da
            if df:
                head += ' default="%s"' % df
            out.append("{%% fill %s %%}%s{%% endfill %%}" % (head, emit_nodes(body, owner_name)))
        elif k == "slot":
            _, name, is_def, is_req, data, body = n
            head = '"%s"' % name + (" default" if is_def else "") + (" required" if is_req else "") + _kw(data)
            if body:
                out.append("{%% slot %s %%}%s{%% endslot %%}" % (head, emit_nodes(body, owner_name)))
            else:
                out.append("{%% slot %s / %%}" % head)
        elif k == "provide":
            out.append('{%% provide "%s"%s %%}%s{%% endprovide %%}' % (n[1], _kw(n[2]), emit_nodes(n[3], owner_name)))
        elif k == "fault":
            out.append('{%% vfault "%s" %%}' % n[1])
        elif k == "filled":
            out.append("{{ component_vars.is_filled.%s }}" % n[1])
        elif k == "forloop":
            out.append("{{ forloop.%s%s }}" % ("parentloop." * n[1], n[2]))
        elif k == "alias_data":
            out.append("{{ %s.%s }}" % (n[1], n[2]))
        elif k == "alias_default":
            out.append("{{ %s }}" % n[1])
        elif k in ("raw", "ph"):
            out.append(n[1])
        else:
            raise AssertionError(k)
    return "".join(out)


def partial(src):
    """Register `src` as a partial template in the engine's locmem loader (name derived from the content)."""
    import hashlib

    from django.template import engines

    name = "inc_%s.html" % hashlib.blake2b(src.encode(), digest_size=6).hexdigest()
    engines["django"].engine.template_loaders[0].templates_dict[name] = src
    return name


def fmt_injected(v):
    if v == DEFAULT_SENTINEL:
        return DEFAULT_SENTINEL
    return ",".join("%s=%s" % (f, getattr(v, f)) for f in v._fields)


def comp_data(name, kwargs, inject_fn, injects, echo_id, comp_id, label=None, extra=None):
    """The get_context_data of every generated component (shared by the real class and the model)."""
    d = {
        name + "_s": kwargs.get("s", "dflt" + (label or name)),
        name + "_l": kwargs.get("l", ["d0", "d1"]),
        name + "_n": ["a", "b"],
        name + "_t": True,
        name + "_f": False,
    }
    for key, has_default in injects:
        d["%s_inj_%s" % (name, key)] = inject_fn(key, has_default)
    if echo_id:
        d[name + "_id"] = comp_id
    if extra:
        d.update(extra)
    return d


class BoomError(Exception):
    pass


_BOOM = {}


def boom_class(ok=False):
    """A component whose stand-alone render always fails below its root (in a nested component's get_context_data);
    with ok=True: a small component tree whose stand-alone render succeeds.  Both are created by build_classes(), i.e.
    before any task runs: creating them lazily inside get_context_data would be a race of the HARNESS under C07."""
    return _BOOM["ok" if ok else "fail"]


def _build_boom(default_registry):
    if _BOOM:
        return
    from django_components import Component

    def inner_gcd(self, **kwargs):
        raise BoomError("nested stand-alone render fails")

    inner = type("GenBoomInner", (Component,), {"template": "never", "get_context_data": inner_gcd,
                                                  "__module__": "sim.generated"})
    default_registry.register("genboominner", inner)
    _BOOM["fail"] = type("GenBoom", (Component,), {
        "template": '<div>{% component "genboominner" / %}</div><span>{% component "genboominner" / %}</span>'.replace(
            "component", world.component_tag()),
        "__module__": "sim.generated"})
    leaf = type("GenOkLeaf", (Component,), {"template": "<b>ok</b>", "__module__": "sim.generated"})
    default_registry.register("genokleaf", leaf)
    _BOOM["ok"] = type("GenOk", (Component,), {
        "template": '{% component "genokleaf" / %}<i>{% component "genokleaf" / %}</i>'.replace(
            "component", world.component_tag()), "__module__": "sim.generated"})


def build_classes(prog, registry=None, module="sim.generated"):
    """Create and register the real Component classes of a program. Returns {name: class}."""
    from django_components import Component
    from django_components import registry as default_registry

    reg = registry or world.current_registry() or default_registry
    classes = {}
    if any(cd.get("tryfail") or cd.get("nested_ok") for cd in prog["comps"]):
        _build_boom(reg)
    for i, cd in reversed(list(enumerate(prog["comps"]))):
        name = cd["name"]
        src = emit_nodes(cd["tmpl"], name if cd.get("echo_id") else None)
        attrs = {"__module__": module}

        def make(cd=cd, name=name):
            def get_context_data(self, **kwargs):
                world.fault_point("gcd:" + name)
                if cd.get("reseed"):
                    import random

                    random.seed(20260926)
                if cd.get("nested_ok"):
                    boom_class(ok=True).render()
                if cd.get("tryfail"):
                    try:
                        boom_class().render(kwargs={"why": name})
                    except BoomError:
                        pass

                def inj(key, has_default):
                    v = self.inject(key, DEFAULT_SENTINEL) if has_default else self.inject(key)
                    return fmt_injected(v)

                return comp_data(name, kwargs, inj, cd["injects"], cd.get("echo_id"), self.id if cd.get("echo_id") else None,
                                 cd.get("label"), cd.get("extra_data"))

            return get_context_data

        attrs["get_context_data"] = make()
        if cd.get("hooks"):
            def orb(self, context, template, name=name):
                world.fault_point("orb:" + name)

            def ora(self, context, template, content, name=name):
                world.fault_point("ora:" + name)
                return None

            attrs["on_render_before"] = orb
            attrs["on_render_after"] = ora
        via = cd.get("tmpl_via", "template")
        if via == "get_template":
            def get_template(self, context, src=src, name=name):
                world.fault_point("gt:" + name)
                return src

            attrs["get_template"] = get_template
        else:
            attrs["template"] = src
        if cd.get("js") is not None:
            attrs["js"] = cd["js"]
        if cd.get("css") is not None:
            attrs["css"] = cd["css"]
        if cd.get("media_js") or cd.get("media_css"):
            media_attrs = {}
            if cd.get("media_js"):
                media_attrs["js"] = list(cd["media_js"])
            if cd.get("media_css"):
                media_attrs["css"] = cd["media_css"] if isinstance(cd["media_css"], dict) else list(cd["media_css"])
            if cd.get("media_extend") is False:
                media_attrs["extend"] = False
            attrs["Media"] = type("Media", (), media_attrs)
        elif cd.get("media_extend") is False:
            attrs["Media"] = type("Media", (), {"extend": False})
        bases = (Component,)
        if cd.get("base") is not None and cd["base"] in classes:
            bases = (classes[cd["base"]],)
        cls = type(cd.get("cls") or ("Gen" + name.upper()), bases, attrs)
        classes[name] = cls
        reg.register(name, cls)
        cd["_src"] = src
    return classes


def page_source(prog):
    return emit_nodes(prog["page"], None)
