"""Deterministic thread scheduler (DESIGN.md 3.6).

Real threading.Thread objects, but only the holder of the baton runs.  Pre-emption points are `line` events
(sys.settrace) in frames of the library's own files; the schedule is materialised before the threads start as a
sparse plan, so one draw list = one interleaving.  Nothing here reads a clock except the watchdog that turns a
deadlock of the *harness* into an error (never into a verdict).
"""
import dis
import os
import sys
import threading

# files of the library whose lines are NOT yield points: logging / settings plumbing only. (The tag parser files are
# yield points too: tag values are compiled lazily, at the first RENDER, on Node objects shared through cached templates.)
NO_YIELD_FILES = {"logger.py", "types.py", "app_settings.py"}

GROUPS = {
    "provide": {"provide_cache", "provide_references", "all_reference_ids", "register_provide_reference",
                "unregister_provide_reference", "managed_provide_cache"},
    "compcache": {"component_context_cache", "component_renderer_cache", "child_component_attrs", "cleanup_failed_render",
                  "post_render_callbacks", "on_component_rendered_callbacks"},
    "lru": {"template_cache", "get_template_cache", "cached_template"},
    "media": {"media_cache", "comp_hash_mapping", "_resolve_media", "resolved", "_component_media",
              "component_media_cache", "get_component_media_cache"},
    "misc": {"component_node_subclasses_by_name", "_djc_is_component_nested", "_metadata_stack"},
    # lines that go through a class object (state memoised on classes is shared by every thread rendering that class)
    "classattr": {"__class__", "component_cls", "comp_cls", "component_class"},
    # per-render state parked on the compiled Template object (shared between threads through the template cache)
    "tplflag": {"_djc_is_component_nested"},
}
GROUP_BIT = {g: 1 << i for i, g in enumerate(GROUPS)}
NAME_BITS = {}
for _g, _names in GROUPS.items():
    for _n in _names:
        NAME_BITS[_n] = NAME_BITS.get(_n, 0) | GROUP_BIT[_g]
# files in which every line touches the shared structure of one group
FILE_GROUP = {os.path.join("util", "cache.py"): "lru", os.path.join("perfutil", "provide.py"): "provide"}
FOCI = ["all"] + list(GROUPS)


class Deadlock(Exception):
    pass


class TaskThread:
    def __init__(self, idx, fn, name):
        self.idx = idx
        self.fn = fn
        self.name = name
        self.baton = threading.Event()
        self.done = False
        self.result = None
        self.steps = 0
        self.shared_steps = 0
        self.blocked_on = None
        self.priority = 0
        self.thread = None
        self.group_counts = [0] * len(GROUPS)
        self.first_sites = [[] for _ in GROUPS]   # per group: the own group-step numbers at which a NEW file:line was reached
        self._seen_sites = [set() for _ in GROUPS]
        self.last_sites = [{} for _ in GROUPS]    # per group: file:line -> own group-step number of its LAST execution


class SimLock:
    """Re-entrant lock whose contention is a scheduling decision instead of a real block."""

    def __init__(self, sched, label="lock"):
        self.sched = sched
        self.owner = None
        self.depth = 0
        self.label = label

    def acquire(self, blocking=True, timeout=-1):
        s = self.sched
        me = s.current if s.running else None
        if me is None:
            self.owner, self.depth = "main", self.depth + 1
            return True
        while self.owner is not None and self.owner is not me:
            s.contention += 1
            me.blocked_on = self
            s.yield_blocked(me)
        me.blocked_on = None
        self.owner = me
        self.depth += 1
        return True

    def release(self):
        self.depth -= 1
        if self.depth == 0:
            self.owner = None
            if self.sched.running:
                for t in self.sched.tasks:
                    if t.blocked_on is self:
                        t.blocked_on = None

    __enter__ = acquire

    def __exit__(self, *a):
        self.release()
        return False


class ThreadingShim:
    """Stands in for the `threading` module inside library modules: locks created by the library while a
    scheduler is installed become SimLocks (contention = scheduling decision), everything else is real."""

    def __init__(self, sched):
        self._sched = sched

    def RLock(self):
        return SimLock(self._sched, "RLock")

    def Lock(self):
        return SimLock(self._sched, "Lock")

    def __getattr__(self, name):
        return getattr(threading, name)


def install_lock_seam(sched):
    """Replace `threading` in every library module that imported it, and the locks of already existing caches."""
    n = 0
    lock_types = (type(threading.Lock()), type(threading.RLock()))
    shim = ThreadingShim(sched)
    for name, mod in list(sys.modules.items()):
        if name.startswith("django_components") and mod is not None:
            if isinstance(getattr(mod, "threading", None), (type(threading), ThreadingShim)):
                mod.threading = shim
                n += 1
            for attr, val in list(vars(mod).items()):
                # `from threading import Lock / RLock` and lock INSTANCES created at import time (module globals)
                if val is threading.Lock or val is threading.RLock:
                    setattr(mod, attr, shim.RLock if val is threading.RLock else shim.Lock)
                    n += 1
                elif isinstance(val, lock_types):
                    setattr(mod, attr, SimLock(sched, attr))
                    n += 1
    try:
        import django_components.cache as djc_cache

        if djc_cache.template_cache is not None and hasattr(djc_cache.template_cache, "_lock"):
            djc_cache.template_cache._lock = SimLock(sched, "RLock")
    except Exception:
        pass
    return n


class Scheduler:
    def __init__(self, lib_dir, plan, record_limit=4000):
        """plan: {"kind": "points", "by": "step"|"shared", "points": [(n, choice), ...]}
              | {"kind": "pct", "order": [...], "changes": [n, ...], "by": "step"|"shared"}
              | {"kind": "serial", "order": [...]}"""
        self.lib_dir = lib_dir.rstrip("/") + "/"
        self.plan = plan
        self.tasks = []
        self.current = None
        self.running = False
        self.step = 0
        self.shared_step = 0
        self.switches = []  # (step, shared_step, from, to, file:line)
        self.shared_trace = []  # (task idx, site) at ownership changes of shared state
        self._last_shared_owner = None
        self.code_info = {}
        self.all_done = threading.Event()
        self.contention = 0
        self.record_limit = record_limit
        self.error = None
        self._points = list(plan.get("points") or [])
        self._pi = 0
        self._changes = sorted(plan.get("changes") or [])
        self._ci = 0
        self.by_shared = plan.get("by") == "shared"
        focus = plan.get("focus") or "all"
        self.focus_mask = GROUP_BIT[focus] if focus in GROUP_BIT else (1 << len(GROUPS)) - 1
        self.any_shared_step = 0
        self.group_counts = [0] * len(GROUPS)
        self.hit_sites = {}

    # ------------------------------------------------------------------ static info per code object
    def info(self, code):
        inf = self.code_info.get(code)
        if inf is None:
            fn = code.co_filename
            if fn.startswith(self.lib_dir) and os.path.basename(fn) not in NO_YIELD_FILES and code.co_name != "<module>":
                rel = fn[len(self.lib_dir):]
                shared = {}
                base = GROUP_BIT[FILE_GROUP[rel]] if rel in FILE_GROUP else 0
                line = code.co_firstlineno
                for ins in dis.get_instructions(code):
                    if ins.starts_line is not None:
                        line = ins.starts_line
                        if base:
                            shared[line] = shared.get(line, 0) | base
                    if ins.argval in NAME_BITS and ins.opname.startswith(("LOAD_", "STORE_", "DELETE_")):
                        shared[line] = shared.get(line, 0) | NAME_BITS[ins.argval]
                inf = (True, shared, rel)
            else:
                inf = (False, None, None)
            self.code_info[code] = inf
        return inf

    # ------------------------------------------------------------------ tracing
    def global_trace(self, frame, event, arg):
        if event != "call":
            return None
        if self.info(frame.f_code)[0]:
            return self.local_trace
        return None

    def local_trace(self, frame, event, arg):
        if event == "line":
            self.on_line(frame)
        return self.local_trace

    def on_line(self, frame):
        t = self.current
        self.step += 1
        t.steps += 1
        _, shared, rel = self.code_info[frame.f_code]
        bits = shared.get(frame.f_lineno, 0) if shared else 0
        is_shared = bool(bits & self.focus_mask)
        if bits:
            self.any_shared_step += 1
            gc_ = self.group_counts
            tg_ = t.group_counts
            i = 0
            b = bits
            while b:
                if b & 1:
                    gc_[i] += 1
                    tg_[i] += 1
                    site_ = (rel, frame.f_lineno)
                    if site_ not in t._seen_sites[i]:
                        t._seen_sites[i].add(site_)
                        t.first_sites[i].append(tg_[i])
                    t.last_sites[i][site_] = tg_[i]
                b >>= 1
                i += 1
        if is_shared:
            self.shared_step += 1
            t.shared_steps += 1
            if self._last_shared_owner is not t.idx:
                self._last_shared_owner = t.idx
                if len(self.shared_trace) < self.record_limit:
                    self.shared_trace.append((t.idx, f"{rel}:{frame.f_lineno}"))
        counter = self.shared_step if self.by_shared else self.step
        if self.by_shared and not is_shared:
            return
        kind = self.plan["kind"]
        if kind == "points":
            if self._pi < len(self._points) and counter >= self._points[self._pi][0]:
                choice = self._points[self._pi][1]
                self._pi += 1
                others = [x for x in self.tasks if not x.done and x is not t and x.blocked_on is None]
                if others:
                    self.switch(t, others[choice % len(others)], frame, rel)
        elif kind == "pct":
            if self._ci < len(self._changes) and counter >= self._changes[self._ci]:
                self._ci += 1
                t.priority = min(x.priority for x in self.tasks) - 1
                best = self.best_runnable()
                if best is not None and best is not t:
                    self.switch(t, best, frame, rel)

    def best_runnable(self, exclude=None):
        cands = [x for x in self.tasks if not x.done and x.blocked_on is None and x is not exclude]
        if not cands:
            return None
        return max(cands, key=lambda x: (x.priority, -x.idx))

    def switch(self, cur, target, frame=None, rel=None):
        site = f"{rel}:{frame.f_lineno}" if frame is not None else "-"
        if len(self.switches) < self.record_limit:
            self.switches.append((self.step, self.shared_step, cur.idx, target.idx, site))
        self.hit_sites[site] = self.hit_sites.get(site, 0) + 1
        self.current = target
        target.baton.set()
        cur.baton.wait()
        cur.baton.clear()

    def yield_blocked(self, me):
        nxt = self.best_runnable(exclude=me)
        if nxt is None:
            self.error = "DEADLOCK: every unfinished task is blocked on a lock"
            raise Deadlock(self.error)
        self.switch(me, nxt)

    # ------------------------------------------------------------------ life cycle
    def _body(self, t):
        t.baton.wait()
        t.baton.clear()
        sys.settrace(self.global_trace)
        try:
            t.result = t.fn()
        except BaseException as e:  # the task wrapper is expected to catch; this is a harness failure
            t.result = ("harness", repr(e))
        finally:
            sys.settrace(None)
            t.done = True
            nxt = self.best_runnable()
            if nxt is None:
                if any(not x.done for x in self.tasks):
                    self.error = "DEADLOCK: unfinished tasks are all blocked"
                    for x in self.tasks:  # release them so that the process can end
                        x.blocked_on = None
                self.running = False
                self.all_done.set()
            else:
                self.current = nxt
                nxt.baton.set()

    def run(self, fns, watchdog_s=120.0):
        self.tasks = [TaskThread(i, fn, f"T{i}") for i, fn in enumerate(fns)]
        order = self.plan.get("order") or list(range(len(fns)))
        for rank, idx in enumerate(order):
            if idx < len(self.tasks):
                self.tasks[idx].priority = len(order) - rank
        for t in self.tasks:
            t.thread = threading.Thread(target=self._body, args=(t,), name=t.name, daemon=True)
            t.thread.start()
        self.running = True
        first = self.best_runnable()
        self.current = first
        first.baton.set()
        if not self.all_done.wait(watchdog_s):
            raise RuntimeError("HARNESS-TIMEOUT: scheduler watchdog expired (a task blocked outside the scheduler's control)")
        for t in self.tasks:
            t.thread.join(5)
        return [t.result for t in self.tasks]


# ----------------------------------------------------------------------------------------------------
# plans
# ----------------------------------------------------------------------------------------------------
GAPS = [1, 2, 3, 5, 8, 13, 21, 34, 55, 89, 144, 233, 377, 610, 987, 1597]


def draw_plan(ch, n_tasks, horizon_steps, horizon_shared, foci=None, focus_horizons=None):
    """Materialise a schedule (0 = simplest: run the tasks one after the other)."""
    # serial, memoryless(step), pct(step), targeted points, targeted pct, single pre-emption at a uniform step (= pct, d=1)
    strat = ch.weighted([1, 4, 3, 5, 3, 3], "strategy")
    single = strat == 5
    if single:
        strat = 2
    order = list(range(n_tasks))
    # a permutation, drawn as successive picks
    perm = []
    pool = list(order)
    while pool:
        perm.append(pool.pop(ch.draw(len(pool), "order")))
    if strat == 0:
        return {"kind": "serial", "order": perm, "name": "serial"}
    focus = "all"
    if strat in (3, 4) and foci:
        focus = foci[ch.draw(len(foci), "focus")]
        if focus_horizons and focus in focus_horizons:
            horizon_shared = focus_horizons[focus]
    if strat in (1, 3):
        by = "step" if strat == 1 else "shared"
        horizon = max(1, horizon_steps if by == "step" else horizon_shared)
        level = ch.draw(5, "rate")  # mean gap as a fraction of the horizon
        mean_gap = max(1, [horizon // 4, horizon // 12, horizon // 40, horizon // 120, horizon // 400][level])
        pts = []
        pos = 0
        cap = 600
        while pos < horizon * 2 and len(pts) < cap:
            # gap ~ roughly geometric around mean_gap, drawn from a small table
            g = GAPS[ch.draw(len(GAPS), "gap")]
            gap = max(1, (g * mean_gap) // 21)
            pos += gap
            pts.append((pos, ch.draw(max(1, n_tasks - 1), "to")))
            if not ch.chance(31, 32, "more"):
                break
        return {"kind": "points", "by": by, "points": pts, "order": perm, "focus": focus,
                "name": "memoryless" if strat == 1 else "targeted"}
    by = "step" if strat == 2 else "shared"
    horizon = max(1, horizon_steps if by == "step" else horizon_shared)
    d = 1 if single else 1 + ch.draw(4, "pct_depth")
    changes = sorted(1 + ch.draw(horizon, "change") for _ in range(d))
    return {"kind": "pct", "by": by, "order": perm, "changes": changes, "focus": focus,
            "name": "single-preemption" if single else ("pct" if strat == 2 else "targeted-pct")}
