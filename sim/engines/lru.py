"""C18 part A: util.cache.LRUCache against a reference ordered map, operation by operation."""
import hashlib
from collections import OrderedDict

from sim import world

KEYS = ["a", "b", "c", ("t", 1)]
SIZES = [2, 1, 3, 0, None]


class RefLRU:
    def __init__(self, maxsize):
        self.maxsize = maxsize
        self.d = OrderedDict()  # last = most recently used
        self.evictions = 0
        self.refreshes = 0

    def get(self, k):
        if k in self.d:
            if next(reversed(self.d)) != k:
                self.refreshes += 1
            self.d.move_to_end(k)
            return self.d[k]
        return None

    def has(self, k):
        return k in self.d

    def set(self, k, v):
        if self.maxsize is not None and self.maxsize <= 0:
            return
        if k in self.d:
            self.d[k] = v
            self.d.move_to_end(k)
            return
        if self.maxsize is not None and len(self.d) >= self.maxsize:
            self.d.popitem(last=False)
            self.evictions += 1
        self.d[k] = v

    def clear(self):
        self.d.clear()

    def order(self):  # most recent first
        return list(reversed(self.d.keys()))


def default_params(tier):
    return {"max_ops": 12 if tier == "quick" else 40}


def run(ch, params, decoded=False):
    from django_components.util.cache import LRUCache

    maxsize = SIZES[ch.draw(len(SIZES), "maxsize")]
    n_ops = ch.int_between(1, params["max_ops"], "n_ops")
    real = LRUCache(maxsize=maxsize)
    ref = RefLRU(maxsize)
    ops = []
    violations = []
    for i in range(n_ops):
        kind = ch.weighted([4, 4, 2, 1], "op")  # set, get, has, clear
        k = KEYS[ch.draw(len(KEYS), "key")] if kind < 3 else None
        name = ("set", "get", "has", "clear")[kind]
        ops.append([name, repr(k) if k is not None else None])
        try:
            if kind == 0:
                r1 = real.set(k, i + 1000)
                r2 = ref.set(k, i + 1000)
            elif kind == 1:
                r1 = real.get(k)
                r2 = ref.get(k)
            elif kind == 2:
                r1 = real.has(k)
                r2 = ref.has(k)
            else:
                r1 = real.clear()
                r2 = ref.clear()
        except Exception as e:
            violations.append({"class": "EXCEPTION", "fingerprint": [name, type(e).__name__],
                               "detail": {"op_index": i, "error": repr(e)}})
            break
        problem = None
        if r1 != r2:
            problem = ("RETURN", f"{name} returned {r1!r}, model {r2!r}")
        elif hasattr(real, "head") and hasattr(real, "cache"):
            wf = world.lru_wellformed(real)
            if wf:
                problem = ("STRUCTURE", wf)
            elif world.lru_order(real) != ref.order():
                problem = ("ORDER", f"recency {world.lru_order(real)!r}, model {ref.order()!r}")
            elif maxsize is not None and len(real.cache) > max(maxsize, 0):
                problem = ("BOUND", f"{len(real.cache)} entries with maxsize {maxsize}")
            elif {k_: n.value for k_, n in real.cache.items()} != dict(ref.d):
                problem = ("CONTENT", "stored values differ from model")
        if problem:
            violations.append({"class": "MODEL-MISMATCH:" + problem[0], "fingerprint": [name, problem[0]],
                               "detail": {"op_index": i, "what": problem[1], "maxsize": maxsize}})
            break
    key = hashlib.blake2b(repr((maxsize, ops)).encode(), digest_size=8).hexdigest()
    res = {
        "violations": violations,
        "key": key,
        "nontrivial": bool(ref.evictions or ref.refreshes),
        "stats": {"ops": len(ops), "evictions": ref.evictions, "recency_refreshes": ref.refreshes,
                  "stratum:lru": 1, f"maxsize={maxsize}": 1},
        "digest": key,
    }
    if decoded or violations:
        res["decoded"] = {"stratum": "lru", "maxsize": maxsize, "ops": ops}
    return res
