"""CLI of every registered check.

  python -m checks.run <ID> --tier quick|thorough        exit 0 held / 1 VIOLATION / 2 harness error
  python -m checks.run <ID> --replay <file>              re-execute a replay file (exit 1 iff it reproduces)

Honours VERIF_SEED, VERIF_TIER, VERIF_WORKERS, VERIF_RUNS (override of the run count, for experiments).
"""
import argparse
import json
import os
import sys
import time

HERE = os.path.dirname(os.path.abspath(__file__))
VERIF_DIR = os.path.dirname(HERE)
sys.path.insert(0, VERIF_DIR)

from checks.specs import SPECS  # noqa: E402
from sim import findings, runner  # noqa: E402

DEFAULT_SEED = 20260926


def _print(*a):
    print(*a, flush=True)


def replay_file(path, quiet=False):
    """Returns (reproduced: bool, result)."""
    with open(path) as f:
        rp = json.load(f)
    z = runner.Zygote(rp["pythonhashseed"])
    try:
        res = runner.run_case(z, rp["engine"], rp["params"], draws=rp["draws"], decoded=True,
                              run_timeout_s=rp.get("run_timeout_s", 120.0))
    finally:
        z.close()
    if "harness_error" in res:
        raise runner.HarnessError(res["harness_error"] + "\n" + str(res.get("traceback")))
    want = runner.fp_key(rp)
    hit = [v for v in res.get("violations") or [] if runner.fp_key(v) == want]
    return bool(hit), res


def do_replay(prop, path):
    try:
        ok, res = replay_file(path)
    except runner.HarnessError as e:
        _print(f"HARNESS-ERROR property={prop} {e}")
        return 2
    if ok:
        known = [v.get("known") for v in res["violations"] if v.get("known")]
        if known:
            _print(f"KNOWN-FINDING: property={prop} {known[0]} reproduced from {path}")
            return 0
        _print(f"VIOLATION property={prop} replay={path}")
        return 1
    _print(f"NOT-REPRODUCED property={prop} replay={path} (observed: "
           f"{[(v.get('class'), v.get('fingerprint')) for v in res.get('violations') or []]})")
    return 0


def write_replay(prop, part, seed, tier, v, draws, shrink_info, decoded_res):
    rdir = os.environ.get("VERIF_REPLAY_DIR") or os.path.join(VERIF_DIR, "replays")
    os.makedirs(rdir, exist_ok=True)
    name = f"{prop}-{part['engine']}-{seed}-{v['index']}.json"
    path = os.path.join(rdir, name)
    rp = {
        "property": prop,
        "class": v.get("class"),
        "fingerprint": v.get("fingerprint"),
        "verif_seed": seed,
        "run_index": v["index"],
        "run_seed": v.get("run_seed"),
        "pythonhashseed": runner.hashseed_of(v["index"]),
        "engine": part["engine"],
        "params": part["params"],
        "tier": tier,
        "djc_src": os.environ.get("DJC_SRC", "/repo/src"),
        "git_head": runner.git_head(),
        "draws": draws,
        "decoded": (decoded_res or {}).get("decoded"),
        "detail": next((x.get("detail") for x in (decoded_res or {}).get("violations") or []
                        if runner.fp_key(x) == runner.fp_key(v)), v.get("detail")),
        "shrink": shrink_info,
        "run_timeout_s": part.get("run_timeout_s", 60.0),
    }
    with open(path, "w") as f:
        json.dump(rp, f, indent=1, default=repr)
    return path


def do_check(prop, tier):
    spec = SPECS[prop]
    seed = int(os.environ.get("VERIF_SEED", DEFAULT_SEED))
    workers = int(os.environ.get("VERIF_WORKERS", "16"))
    t0 = time.monotonic()
    exit_code = 0
    known_lines = []
    violations_out = []
    harness_errors = []

    # 1. pinned replays of the open known findings
    known_entries = findings.open_for(prop)
    known_confirmed = {}
    for ent in known_entries:
        path = os.path.join(VERIF_DIR, ent["replay"])
        try:
            ok, res = replay_file(path)
        except runner.HarnessError as e:
            harness_errors.append(f"known-finding replay {ent['id']}: {e}")
            continue
        if ok:
            known_confirmed[ent["id"]] = 0
            _print(f"KNOWN-FINDING: property={prop} {ent['id']}: {ent['what']}")

    # 1b. pinned regression cases of REPAIRED findings whose shape is too rare for the random search to re-find
    #     reliably: executed on every run; a fixed entry suppresses nothing - if the case fails again it is a VIOLATION
    for ent in findings.load():
        if ent.get("property") == prop and ent.get("status") == "fixed" and ent.get("pinned_regression"):
            path = os.path.join(VERIF_DIR, ent["pinned_regression"])
            try:
                ok, res = replay_file(path)
            except runner.HarnessError as e:
                harness_errors.append(f"pinned regression {ent['id']}: {e}")
                continue
            if ok:
                exit_code = 1
                _print(f"VIOLATION property={prop} replay={path}")
                _print(f"  pinned regression case of repaired finding {ent['id']} fails again")
                violations_out.append({"class": "REGRESSION", "fingerprint": [ent["id"]], "count": 1, "replay": path})

    # 2. seeded search, one part (engine + parameters) after the other
    parts_summary = []
    total_runs = 0
    keys = {}
    stats = {}
    samples = []
    stopped_early = False
    only_part = os.environ.get("VERIF_ONLY_PART")   # experiments: run one part (engine + parameters) of a check only
    for part_no, part in enumerate(spec["parts"](tier)):
        if only_part is not None and str(part_no) != only_part:
            continue
        n_runs = int(os.environ.get("VERIF_RUNS", part["runs"]))
        try:
            summ = runner.explore(
                prop, part["engine"], part["params"], seed, n_runs, workers=workers,
                wall_s=part.get("wall_s", 150.0) * float(os.environ.get("VERIF_WALL_MULT", "1")),
                run_timeout_s=part.get("run_timeout_s", 60.0),
                per_fork=part.get("per_fork", 1), samples=2,
            )
        except runner.HarnessError as e:
            harness_errors.append(str(e))
            continue
        total_runs += summ["runs"]
        stopped_early = stopped_early or summ["stopped_early"]
        for k, v in summ["stats"].items():
            stats[k] = stats.get(k, 0) + v
        for k, v in summ["keys"].items():
            kk = part["engine"] + ":" + k
            keys[kk] = max(keys.get(kk, 0), v)
        samples.extend({"engine": part["engine"], **s} for s in summ["samples"][:2])
        for he in summ["harness_errors"]:
            harness_errors.append(f"{part['engine']} runs {he['indices']}: {he['error']}\n{he.get('traceback') or ''}")
        parts_summary.append({"engine": part["engine"], "runs": summ["runs"], "wall_s": summ["wall_s"],
                              "params": part["params"], "stopped_early": summ["stopped_early"]})
        # group violations
        new_by_fp = {}
        for v in summ["violations"]:
            if v.get("known"):
                known_confirmed[v["known"]] = known_confirmed.get(v["known"], 0) + 1
                continue
            new_by_fp.setdefault(runner.fp_key(v), []).append(v)
        if new_by_fp:
            exit_code = 1
            shown = 0
            for fpk, vs in sorted(new_by_fp.items(), key=lambda kv: kv[1][0]["index"]):
                v = min(vs, key=lambda x: (len(x["draws"] or []), x["index"]))
                if shown >= int(os.environ.get("VERIF_MAX_REPORTS", "4")):
                    violations_out.append({"class": v["class"], "fingerprint": v["fingerprint"], "count": len(vs),
                                           "replay": None, "note": "not minimised (report cap)"})
                    continue
                shown += 1
                z = runner.Zygote(runner.hashseed_of(v["index"]))
                try:
                    best, info = runner.minimise(z, part["engine"], part["params"], v,
                                                 run_timeout_s=part.get("run_timeout_s", 60.0))
                    draws = best if best is not None else v["draws"]
                    dec = runner.run_case(z, part["engine"], part["params"], draws=draws, decoded=True,
                                          run_timeout_s=part.get("run_timeout_s", 60.0))
                finally:
                    z.close()
                path = write_replay(prop, part, seed, tier, v, draws, info, dec)
                _print(f"VIOLATION property={prop} replay={path}")
                _print(f"  class={v['class']} fingerprint={v['fingerprint']} occurrences={len(vs)} "
                       f"first_index={vs[0]['index']} shrink={info}")
                violations_out.append({"class": v["class"], "fingerprint": v["fingerprint"], "count": len(vs),
                                       "replay": path, "shrink": info})

    # 3. determinism self-test: a sample of the same run indices executed again, in other zygotes, at another worker
    #    count, must give identical event-log digests (a mismatch is a harness defect: exit 2, nothing else is believed)
    selftest = {"pairs_compared": 0, "mismatches": 0}
    n_self = int(os.environ.get("VERIF_SELFTEST", "48" if tier == "quick" else "300"))
    if n_self and exit_code == 0 and not harness_errors:
        try:
            for part in spec["parts"](tier):
                a = runner.explore(prop, part["engine"], part["params"], seed, n_self, workers=workers, digests=True,
                                   per_fork=part.get("per_fork", 1), wall_s=120, run_timeout_s=part.get("run_timeout_s", 60.0))
                b = runner.explore(prop, part["engine"], part["params"], seed, n_self, workers=3, digests=True,
                                   per_fork=1, wall_s=300, run_timeout_s=part.get("run_timeout_s", 60.0))
                common = [i for i in a["digests"] if i in b["digests"]]
                bad = [i for i in common if a["digests"][i] != b["digests"][i]]
                selftest["pairs_compared"] += len(common)
                selftest["mismatches"] += len(bad)
                if bad:
                    harness_errors.append(f"determinism self-test: run indices {bad[:5]} of engine {part['engine']} gave different digests")
        except runner.HarnessError as e:
            harness_errors.append("determinism self-test: " + str(e))

    if harness_errors:
        for he in harness_errors[:5]:
            _print(f"HARNESS-ERROR property={prop} {he}")
        if exit_code == 0:
            exit_code = 2

    wall = time.monotonic() - t0
    distinct_nontrivial = sum(1 for v in keys.values() if v)
    cov = {
        "evaluations": total_runs,
        "distinct_nontrivial": distinct_nontrivial,
        "distinct_cases": len(keys),
        "rule": spec["rule"],
        "samples": samples[:6],
        "parts": parts_summary,
        "runs_per_hour": int(total_runs / wall * 3600) if wall > 0 else 0,
        "seeds": {"verif_seed": seed, "run_seed": "blake2b(verif_seed, property, run_index)",
                  "first_run_index": 0, "last_run_index": max([p["runs"] for p in parts_summary] or [0]) - 1,
                  "pythonhashseeds": runner.HASHSEEDS},
        "counters": dict(sorted(stats.items())),
        "fault_kinds_injected": {k[6:]: v for k, v in sorted(stats.items()) if k.startswith("fault:")} or
        spec.get("no_faults_reason", "none"),
        "probes": {k[6:]: v for k, v in sorted(stats.items()) if k.startswith("probe:")},
        "sim_time_s": spec.get("sim_time", "n/a: the library reads no clock on this path"),
        "real_vs_stub": spec["real_vs_stub"],
        "known_findings_confirmed": known_confirmed,
        "determinism_selftest": selftest,
        "stopped_early_by_wall_cap": stopped_early,
        "harness_errors": len(harness_errors),
        "workers": workers,
        "djc_src": os.environ.get("DJC_SRC", "/repo/src"),
        "git_head": runner.git_head(),
    }
    if "sim_time_stat" in spec and spec["sim_time_stat"] in stats:
        cov["sim_time_s"] = stats[spec["sim_time_stat"]]
    if "derive" in spec:
        try:
            cov["derived"] = spec["derive"](stats, total_runs)
        except Exception as e:  # never let reporting break a verdict
            cov["derived"] = {"error": repr(e)}
    ev = {
        "property_id": prop,
        "tier": tier,
        "seed": seed,
        "level": spec["level"],
        "coverage": cov,
        "assumptions": spec["assumptions"],
        "wall_s": round(wall, 2),
        "violations": len(violations_out),
        "violation_reports": violations_out,
    }
    evdir = os.environ.get("VERIF_EVIDENCE_DIR") or os.path.join(VERIF_DIR, "evidence")
    os.makedirs(evdir, exist_ok=True)
    with open(os.path.join(evdir, f"{prop}.json"), "w") as f:
        json.dump(ev, f, indent=1, default=repr)
    _print(f"{prop} tier={tier} seed={seed} runs={total_runs} distinct_nontrivial={distinct_nontrivial} "
           f"violations={len(violations_out)} known={known_confirmed} harness_errors={len(harness_errors)} "
           f"wall={wall:.1f}s exit={exit_code}")
    return exit_code


def main():
    ap = argparse.ArgumentParser()
    ap.add_argument("prop")
    ap.add_argument("--tier", default=os.environ.get("VERIF_TIER", "quick"), choices=["quick", "thorough"])
    ap.add_argument("--replay")
    a = ap.parse_args()
    if a.prop not in SPECS:
        _print(f"HARNESS-ERROR unknown property {a.prop}")
        return 2
    if a.replay:
        return do_replay(a.prop, a.replay)
    try:
        return do_check(a.prop, a.tier)
    except runner.HarnessError as e:
        _print(f"HARNESS-ERROR property={a.prop} {e}")
        return 2


if __name__ == "__main__":
    sys.exit(main())
